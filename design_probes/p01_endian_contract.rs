use vstd::prelude::*;
verus! {
#[verifier::external_type_specification]
#[verifier::external_body]
pub struct ExTryFromSliceError(core::array::TryFromSliceError);

pub enum ParseError {
    SliceReadError((usize, usize)),
    IntegerOverflow,
    TryFromSliceError(core::array::TryFromSliceError),
    TryFromIntError(core::num::TryFromIntError),
    UnsupportedElfEndianness(u8),
}

impl From<core::array::TryFromSliceError> for ParseError {
    #[verifier::external_body]
    fn from(err: core::array::TryFromSliceError) -> Self {
        ParseError::TryFromSliceError(err)
    }
}
impl vstd::std_specs::convert::FromSpecImpl<core::array::TryFromSliceError> for ParseError {
    open spec fn obeys_from_spec() -> bool { true }
    open spec fn from_spec(v: core::array::TryFromSliceError) -> Self { ParseError::TryFromSliceError(v) }
}

// ---- spec of byte order
pub open spec fn le_val(s: Seq<u8>) -> nat decreases s.len() {
    if s.len() == 0 { 0 } else { s[0] as nat + 256 * le_val(s.drop_first()) }
}
pub open spec fn be_val(s: Seq<u8>) -> nat decreases s.len() {
    if s.len() == 0 { 0 } else { be_val(s.drop_last()) * 256 + s.last() as nat }
}
pub open spec fn uval(little: bool, s: Seq<u8>) -> nat { if little { le_val(s) } else { be_val(s) } }
// two's complement
pub open spec fn sval(little: bool, s: Seq<u8>) -> int {
    let u = uval(little, s) as int; let m = pow256(s.len()) as int;
    if 2*u >= m { u - m } else { u }
}
pub open spec fn pow256(n: nat) -> nat decreases n { if n == 0 { 1 } else { 256 * pow256((n-1) as nat) } }

#[verifier::external_body]
fn shim_u16_from_le_bytes(b: [u8; 2]) -> (r: u16) ensures r as nat == le_val(b@) { u16::from_le_bytes(b) }
#[verifier::external_body]
fn shim_u16_from_be_bytes(b: [u8; 2]) -> (r: u16) ensures r as nat == be_val(b@) { u16::from_be_bytes(b) }
#[verifier::external_body]
fn shim_i32_from_le_bytes(b: [u8; 4]) -> (r: i32) ensures r as int == sval(true, b@) { i32::from_le_bytes(b) }
#[verifier::external_body]
fn shim_i32_from_be_bytes(b: [u8; 4]) -> (r: i32) ensures r as int == sval(false, b@) { i32::from_be_bytes(b) }

pub assume_specification<'a, T: Copy, const N: usize>[ <[T; N] as TryFrom<&'a [T]>>::try_from ](s: &[T]) -> (r: Result<[T; N], core::array::TryFromSliceError>)
    ensures s@.len() == N ==> (r is Ok && r->Ok_0@ == s@),
            s@.len() != N ==> r is Err;

#[verifier::external_body]
pub broadcast proof fn axiom_slice_len_bound(s: &[u8]) ensures #[trigger] s@.len() <= isize::MAX {}

pub open spec fn read_ok(off: usize, w: nat, data: &[u8]) -> bool { off + w <= data@.len() }
pub open spec fn window(off: usize, w: nat, data: &[u8]) -> Seq<u8> { data@.subrange(off as int, off + w) }

pub trait EndianParse: Clone + Copy + Default + PartialEq + Eq {
    spec fn spec_is_little(self) -> bool;

    fn parse_u16_at(self, offset: &mut usize, data: &[u8]) -> (r: Result<u16, ParseError>)
        ensures
            read_ok(*old(offset), 2, data) <==> r is Ok,
            r is Ok ==> *final(offset) == *old(offset) + 2 && r->Ok_0 as nat == uval(self.spec_is_little(), window(*old(offset), 2, data)),
            r is Err ==> *final(offset) == *old(offset),
    {
        broadcast use axiom_slice_len_bound;
        let end = (*offset)
            .checked_add(2)
            .ok_or(ParseError::IntegerOverflow)?;

        let buf: [u8; 2] = data
            .get(*offset..end)
            .ok_or(ParseError::SliceReadError((*offset, end)))?
            .try_into()?;

        *offset = end;

        if self.is_little() {
            Ok(shim_u16_from_le_bytes(buf))
        } else {
            Ok(shim_u16_from_be_bytes(buf))
        }
    }
    fn parse_i32_at(self, offset: &mut usize, data: &[u8]) -> (r: Result<i32, ParseError>)
        ensures
            read_ok(*old(offset), 4, data) <==> r is Ok,
            r is Ok ==> *final(offset) == *old(offset) + 4 && r->Ok_0 as int == sval(self.spec_is_little(), window(*old(offset), 4, data)),
            r is Err ==> *final(offset) == *old(offset),
    {
        broadcast use axiom_slice_len_bound;
        let end = (*offset)
            .checked_add(4)
            .ok_or(ParseError::IntegerOverflow)?;

        let buf: [u8; 4] = data
            .get(*offset..end)
            .ok_or(ParseError::SliceReadError((*offset, end)))?
            .try_into()?;

        *offset = end;

        if self.is_little() {
            Ok(shim_i32_from_le_bytes(buf))
        } else {
            Ok(shim_i32_from_be_bytes(buf))
        }
    }

    fn from_ei_data(ei_data: u8) -> Result<Self, ParseError>;

    fn is_little(self) -> (r: bool) ensures r == self.spec_is_little();

    #[inline(always)]
    fn is_big(self) -> bool {
        !self.is_little()
    }
}
}
fn main(){}
