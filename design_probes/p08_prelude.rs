pub mod shims {
use vstd::prelude::*;
use vstd::std_specs::iter::IteratorSpec;
pub open spec fn le_val(s: Seq<u8>) -> nat decreases s.len() {
    if s.len() == 0 { 0 } else { s[0] as nat + 256 * le_val(s.drop_first()) }
}
pub open spec fn be_val(s: Seq<u8>) -> nat decreases s.len() {
    if s.len() == 0 { 0 } else { be_val(s.drop_last()) * 256 + s.last() as nat }
}
pub trait FromBytesShim<const N: usize>: Sized {
    fn shim_from_le_bytes(b: [u8; N]) -> Self;
    fn shim_from_be_bytes(b: [u8; N]) -> Self;
}
@SHIMIMPLS@
#[verifier::external_type_specification]
#[verifier::external_body]
pub struct ExTryFromSliceError(core::array::TryFromSliceError);
#[verifier::external_type_specification]
#[verifier::external_body]
pub struct ExUtf8Error(core::str::Utf8Error);
pub assume_specification [u32::checked_shr] (x: u32, n: u32) -> (r: Option<u32>)
    ensures n < 32 ==> r == Some(x >> n), n >= 32 ==> r is None;
pub assume_specification<'a, T, P: FnMut(&'a T) -> bool> [<core::slice::Iter<'a, T> as Iterator>::position] (it: &mut core::slice::Iter<'a, T>, pred: P) -> (r: Option<usize>)
    where core::slice::Iter<'a, T>: Sized
    requires forall|i: int| 0 <= i < old(it).remaining().len() ==> call_requires(pred, (#[trigger] old(it).remaining()[i],)),
    ensures match r {
        Some(k) => k < old(it).remaining().len() && call_ensures(pred, (old(it).remaining()[k as int],), true)
            && forall|j: int| 0 <= j < k ==> call_ensures(pred, (#[trigger] old(it).remaining()[j],), false),
        None => forall|j: int| 0 <= j < old(it).remaining().len() ==> call_ensures(pred, (#[trigger] old(it).remaining()[j],), false),
    };
pub assume_specification [core::str::from_utf8] (v: &[u8]) -> (r: Result<&str, core::str::Utf8Error>);
}
