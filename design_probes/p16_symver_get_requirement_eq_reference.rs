use vstd::prelude::*;
use vstd::std_specs::iter::IteratorSpec;
use core::{marker::PhantomData, ops::Range};
verus! {
#[verifier::external_type_specification]
#[verifier::external_body]
pub struct ExTryFromSliceError(core::array::TryFromSliceError);

#[verifier::external_type_specification]
#[verifier::external_body]
pub struct ExUtf8Error(core::str::Utf8Error);
pub enum ParseError {
    BadMagic([u8; 4]),
    UnsupportedElfClass(u8),
    UnsupportedElfEndianness(u8),
    UnsupportedVersion((u64, u64)),
    BadOffset(u64),
    StringTableMissingNul(u64),
    BadEntsize((u64, u64)),
    UnexpectedSectionType((u32, u32)),
    UnexpectedSegmentType((u32, u32)),
    UnexpectedAlignment(usize),
    SliceReadError((usize, usize)),
    IntegerOverflow,
    Utf8Error(core::str::Utf8Error),
    TryFromSliceError(core::array::TryFromSliceError),
    TryFromIntError(core::num::TryFromIntError),
}
impl From<core::num::TryFromIntError> for ParseError {
    #[verifier::external_body]
    fn from(err: core::num::TryFromIntError) -> Self {
        ParseError::TryFromIntError(err)
    }
}
impl vstd::std_specs::convert::FromSpecImpl<core::num::TryFromIntError> for ParseError {
    open spec fn obeys_from_spec() -> bool { true }
    open spec fn from_spec(v: core::num::TryFromIntError) -> Self { ParseError::TryFromIntError(v) }
}
impl From<core::array::TryFromSliceError> for ParseError {
    #[verifier::external_body]
    fn from(err: core::array::TryFromSliceError) -> Self {
        ParseError::TryFromSliceError(err)
    }
}
impl vstd::std_specs::convert::FromSpecImpl<core::array::TryFromSliceError> for ParseError {
    open spec fn obeys_from_spec() -> bool { true }
    open spec fn from_spec(v: core::array::TryFromSliceError) -> Self { ParseError::TryFromSliceError(v) }
}

// ---- spec of byte order
pub open spec fn le_val(s: Seq<u8>) -> nat decreases s.len() {
    if s.len() == 0 { 0 } else { s[0] as nat + 256 * le_val(s.drop_first()) }
}
pub open spec fn be_val(s: Seq<u8>) -> nat decreases s.len() {
    if s.len() == 0 { 0 } else { be_val(s.drop_last()) * 256 + s.last() as nat }
}
pub open spec fn uval(little: bool, s: Seq<u8>) -> nat { if little { le_val(s) } else { be_val(s) } }
// two's complement
pub open spec fn sval(little: bool, s: Seq<u8>) -> int {
    let u = uval(little, s) as int; let m = pow256(s.len()) as int;
    if 2*u >= m { u - m } else { u }
}
pub open spec fn pow256(n: nat) -> nat decreases n { if n == 0 { 1 } else { 256 * pow256((n-1) as nat) } }

#[verifier::external_body]
fn shim_u16_from_le_bytes(b: [u8; 2]) -> (r: u16) ensures r as nat == le_val(b@) { u16::from_le_bytes(b) }
#[verifier::external_body]
fn shim_u16_from_be_bytes(b: [u8; 2]) -> (r: u16) ensures r as nat == be_val(b@) { u16::from_be_bytes(b) }
#[verifier::external_body]
fn shim_i32_from_le_bytes(b: [u8; 4]) -> (r: i32) ensures r as int == sval(true, b@) { i32::from_le_bytes(b) }
#[verifier::external_body]
fn shim_i32_from_be_bytes(b: [u8; 4]) -> (r: i32) ensures r as int == sval(false, b@) { i32::from_be_bytes(b) }

#[verifier::external_body]
fn shim_u32_from_le_bytes(b: [u8; 4]) -> (r: u32) ensures r as nat == le_val(b@) { u32::from_le_bytes(b) }
#[verifier::external_body]
fn shim_u32_from_be_bytes(b: [u8; 4]) -> (r: u32) ensures r as nat == be_val(b@) { u32::from_be_bytes(b) }
#[verifier::external_body]
fn shim_u64_from_le_bytes(b: [u8; 8]) -> (r: u64) ensures r as nat == le_val(b@) { u64::from_le_bytes(b) }
#[verifier::external_body]
fn shim_u64_from_be_bytes(b: [u8; 8]) -> (r: u64) ensures r as nat == be_val(b@) { u64::from_be_bytes(b) }
#[verifier::external_body]
fn shim_u8_from_le_bytes(b: [u8; 1]) -> (r: u8) ensures r as nat == le_val(b@) { u8::from_le_bytes(b) }
#[verifier::external_body]
fn shim_u8_from_be_bytes(b: [u8; 1]) -> (r: u8) ensures r as nat == be_val(b@) { u8::from_be_bytes(b) }
pub assume_specification<'a, T: Copy, const N: usize>[ <[T; N] as TryFrom<&'a [T]>>::try_from ](s: &[T]) -> (r: Result<[T; N], core::array::TryFromSliceError>)
    ensures s@.len() == N ==> (r is Ok && r->Ok_0@ == s@),
            s@.len() != N ==> r is Err;

pub mod ax { use vstd::prelude::*;
#[verifier::external_body]
pub broadcast proof fn axiom_slice_len_bound(s: &[u8]) ensures #[trigger] s@.len() <= isize::MAX {}
}
broadcast use ax::axiom_slice_len_bound;

pub proof fn lemma_index_in_table(i: nat, sz: nat, len: nat)
    requires sz > 0
    ensures i < len / sz <==> i * sz + sz <= len
{
    vstd::arithmetic::div_mod::lemma_fundamental_div_mod(len as int, sz as int);
    vstd::arithmetic::div_mod::lemma_mod_bound(len as int, sz as int);
    let q = len / sz;
    if i < q {
        assert((i + 1) * sz <= q * sz) by (nonlinear_arith) requires i + 1 <= q, sz > 0;
        assert((i + 1) * sz == i * sz + sz) by (nonlinear_arith);
        assert(q * sz == sz * q) by (nonlinear_arith);
    } else {
        assert(q * sz <= i * sz) by (nonlinear_arith) requires q <= i, sz > 0;
        assert(q * sz == sz * q) by (nonlinear_arith);
    }
}
pub open spec fn read_ok(off: usize, w: nat, data: &[u8]) -> bool { off + w <= data@.len() }
pub open spec fn window(off: usize, w: nat, data: &[u8]) -> Seq<u8> { data@.subrange(off as int, off + w) }

pub trait EndianParse: Clone + Copy + Default + PartialEq + Eq {
    spec fn spec_is_little(self) -> bool;

    fn parse_u16_at(self, offset: &mut usize, data: &[u8]) -> (r: Result<u16, ParseError>)
        ensures
            read_ok(*old(offset), 2, data) <==> r is Ok,
            r is Ok ==> *final(offset) == *old(offset) + 2 && r->Ok_0 as nat == uval(self.spec_is_little(), window(*old(offset), 2, data)),
            r is Err ==> *final(offset) == *old(offset),
    {
        let end = (*offset)
            .checked_add(2)
            .ok_or(ParseError::IntegerOverflow)?;

        let buf: [u8; 2] = data
            .get(*offset..end)
            .ok_or(ParseError::SliceReadError((*offset, end)))?
            .try_into()?;

        *offset = end;

        if self.is_little() {
            Ok(shim_u16_from_le_bytes(buf))
        } else {
            Ok(shim_u16_from_be_bytes(buf))
        }
    }
    fn parse_u32_at(self, offset: &mut usize, data: &[u8]) -> (r: Result<u32, ParseError>)
        ensures
            read_ok(*old(offset), 4, data) <==> r is Ok,
            r is Ok ==> *final(offset) == *old(offset) + 4 && r->Ok_0 as nat == uval(self.spec_is_little(), window(*old(offset), 4, data)),
            r is Err ==> *final(offset) == *old(offset),
    {
        let end = (*offset)
            .checked_add(4)
            .ok_or(ParseError::IntegerOverflow)?;

        let buf: [u8; 4] = data
            .get(*offset..end)
            .ok_or(ParseError::SliceReadError((*offset, end)))?
            .try_into()?;

        *offset = end;

        if self.is_little() {
            Ok(shim_u32_from_le_bytes(buf))
        } else {
            Ok(shim_u32_from_be_bytes(buf))
        }
    }
    fn parse_u64_at(self, offset: &mut usize, data: &[u8]) -> (r: Result<u64, ParseError>)
        ensures
            read_ok(*old(offset), 8, data) <==> r is Ok,
            r is Ok ==> *final(offset) == *old(offset) + 8 && r->Ok_0 as nat == uval(self.spec_is_little(), window(*old(offset), 8, data)),
            r is Err ==> *final(offset) == *old(offset),
    {
        let end = (*offset)
            .checked_add(8)
            .ok_or(ParseError::IntegerOverflow)?;

        let buf: [u8; 8] = data
            .get(*offset..end)
            .ok_or(ParseError::SliceReadError((*offset, end)))?
            .try_into()?;

        *offset = end;

        if self.is_little() {
            Ok(shim_u64_from_le_bytes(buf))
        } else {
            Ok(shim_u64_from_be_bytes(buf))
        }
    }
    fn parse_u8_at(self, offset: &mut usize, data: &[u8]) -> (r: Result<u8, ParseError>)
        ensures
            read_ok(*old(offset), 1, data) <==> r is Ok,
            r is Ok ==> *final(offset) == *old(offset) + 1 && r->Ok_0 as nat == uval(self.spec_is_little(), window(*old(offset), 1, data)),
            r is Err ==> *final(offset) == *old(offset),
    {
        let end = (*offset)
            .checked_add(1)
            .ok_or(ParseError::IntegerOverflow)?;

        let buf: [u8; 1] = data
            .get(*offset..end)
            .ok_or(ParseError::SliceReadError((*offset, end)))?
            .try_into()?;

        *offset = end;

        if self.is_little() {
            Ok(shim_u8_from_le_bytes(buf))
        } else {
            Ok(shim_u8_from_be_bytes(buf))
        }
    }
    fn parse_i32_at(self, offset: &mut usize, data: &[u8]) -> (r: Result<i32, ParseError>)
        ensures
            read_ok(*old(offset), 4, data) <==> r is Ok,
            r is Ok ==> *final(offset) == *old(offset) + 4 && r->Ok_0 as int == sval(self.spec_is_little(), window(*old(offset), 4, data)),
            r is Err ==> *final(offset) == *old(offset),
    {
        let end = (*offset)
            .checked_add(4)
            .ok_or(ParseError::IntegerOverflow)?;

        let buf: [u8; 4] = data
            .get(*offset..end)
            .ok_or(ParseError::SliceReadError((*offset, end)))?
            .try_into()?;

        *offset = end;

        if self.is_little() {
            Ok(shim_i32_from_le_bytes(buf))
        } else {
            Ok(shim_i32_from_be_bytes(buf))
        }
    }

    fn from_ei_data(ei_data: u8) -> Result<Self, ParseError>;

    fn is_little(self) -> (r: bool) ensures r == self.spec_is_little();

    #[inline(always)]
    fn is_big(self) -> bool {
        !self.is_little()
    }
}

#[derive(Debug, Copy, Clone, PartialEq, Eq, Structural)]
pub enum Class {
    ELF32,
    ELF64,
}
pub trait ParseAt: Sized {
    /// Parse this type by using the given endian-awareness and ELF class layout.
    /// This is generic on EndianParse in order to allow users to optimize for
    /// their expectations of data layout. See EndianParse for more details.
    spec fn spec_size(class: Class) -> nat;
    proof fn lemma_size_pos(class: Class) ensures Self::spec_size(class) > 0;
    spec fn spec_accepts(little: bool, class: Class, w: Seq<u8>, b: int) -> bool;
    spec fn spec_decode(little: bool, class: Class, w: Seq<u8>, b: int) -> Self;
    fn parse_at<E: EndianParse>(
        endian: E,
        class: Class,
        offset: &mut usize,
        data: &[u8],
    ) -> (r: Result<Self, ParseError>)
        ensures
            r is Ok <==> (read_ok(*old(offset), Self::spec_size(class), data) && Self::spec_accepts(endian.spec_is_little(), class, data@, *old(offset) as int)),
            r is Ok ==> *final(offset) == *old(offset) + Self::spec_size(class)
                 && r->Ok_0 == Self::spec_decode(endian.spec_is_little(), class, data@, *old(offset) as int),
            r is Err ==> *old(offset) <= *final(offset) <= *old(offset) + Self::spec_size(class),
    ;

    /// Returns the expected size of the type being parsed for the given ELF class
    fn size_for(class: Class) -> (r: usize) ensures r == Self::spec_size(class), r > 0;

    /// Checks whether the given entsize matches what we need to parse this type
    ///
    /// Returns a ParseError for bad/unexpected entsizes that don't match what this type parses.
    fn validate_entsize(class: Class, entsize: usize) -> Result<usize, ParseError> {
        let expected = Self::size_for(class);
        match entsize == expected {
            true => Ok(entsize),
            false => Err(ParseError::BadEntsize((entsize as u64, expected as u64))),
        }
    }
}/// Encapsulates the contents of an ELF Section Header
///
/// This is a Rust-native type that represents a Section Header that is bit-width-agnostic.
#[derive(Copy, Clone, Debug, PartialEq, Eq)]
pub struct SectionHeader {
    /// Section Name
    pub sh_name: u32,
    /// Section Type
    pub sh_type: u32,
    /// Section Flags
    pub sh_flags: u64,
    /// in-memory address where this section is loaded
    pub sh_addr: u64,
    /// Byte-offset into the file where this section starts
    pub sh_offset: u64,
    /// Section size in bytes
    pub sh_size: u64,
    /// Defined by section type
    pub sh_link: u32,
    /// Defined by section type
    pub sh_info: u32,
    /// address alignment
    pub sh_addralign: u64,
    /// size of an entry if section data is an array of entries
    pub sh_entsize: u64,
}

pub open spec fn fld(little: bool, w: Seq<u8>, off: int, n: int) -> nat { uval(little, w.subrange(off, off + n)) }
impl ParseAt for SectionHeader {
    open spec fn spec_size(class: Class) -> nat { match class { Class::ELF32 => 40, Class::ELF64 => 64 } }
    proof fn lemma_size_pos(class: Class) {}
    open spec fn spec_accepts(little: bool, class: Class, w: Seq<u8>, b: int) -> bool { true }
    open spec fn spec_decode(little: bool, class: Class, w: Seq<u8>, b: int) -> Self {
        match class {
            Class::ELF32 => SectionHeader {
                sh_name: fld(little, w, b + 0, 4) as u32, sh_type: fld(little, w, b + 4, 4) as u32, sh_flags: fld(little, w, b + 8, 4) as u64,
                sh_addr: fld(little, w, b + 12, 4) as u64, sh_offset: fld(little, w, b + 16, 4) as u64, sh_size: fld(little, w, b + 20, 4) as u64,
                sh_link: fld(little, w, b + 24, 4) as u32, sh_info: fld(little, w, b + 28, 4) as u32, sh_addralign: fld(little, w, b + 32, 4) as u64,
                sh_entsize: fld(little, w, b + 36, 4) as u64 },
            Class::ELF64 => SectionHeader {
                sh_name: fld(little, w, b + 0, 4) as u32, sh_type: fld(little, w, b + 4, 4) as u32, sh_flags: fld(little, w, b + 8, 8) as u64,
                sh_addr: fld(little, w, b + 16, 8) as u64, sh_offset: fld(little, w, b + 24, 8) as u64, sh_size: fld(little, w, b + 32, 8) as u64,
                sh_link: fld(little, w, b + 40, 4) as u32, sh_info: fld(little, w, b + 44, 4) as u32, sh_addralign: fld(little, w, b + 48, 8) as u64,
                sh_entsize: fld(little, w, b + 56, 8) as u64 },
        }
    }

    fn parse_at<E: EndianParse>(
        endian: E,
        class: Class,
        offset: &mut usize,
        data: &[u8],
    ) -> Result<Self, ParseError> {
        match class {
            Class::ELF32 => Ok(SectionHeader {
                sh_name: endian.parse_u32_at(offset, data)?,
                sh_type: endian.parse_u32_at(offset, data)?,
                sh_flags: endian.parse_u32_at(offset, data)? as u64,
                sh_addr: endian.parse_u32_at(offset, data)? as u64,
                sh_offset: endian.parse_u32_at(offset, data)? as u64,
                sh_size: endian.parse_u32_at(offset, data)? as u64,
                sh_link: endian.parse_u32_at(offset, data)?,
                sh_info: endian.parse_u32_at(offset, data)?,
                sh_addralign: endian.parse_u32_at(offset, data)? as u64,
                sh_entsize: endian.parse_u32_at(offset, data)? as u64,
            }),
            Class::ELF64 => Ok(SectionHeader {
                sh_name: endian.parse_u32_at(offset, data)?,
                sh_type: endian.parse_u32_at(offset, data)?,
                sh_flags: endian.parse_u64_at(offset, data)?,
                sh_addr: endian.parse_u64_at(offset, data)?,
                sh_offset: endian.parse_u64_at(offset, data)?,
                sh_size: endian.parse_u64_at(offset, data)?,
                sh_link: endian.parse_u32_at(offset, data)?,
                sh_info: endian.parse_u32_at(offset, data)?,
                sh_addralign: endian.parse_u64_at(offset, data)?,
                sh_entsize: endian.parse_u64_at(offset, data)?,
            }),
        }
    }

    #[inline]
    fn size_for(class: Class) -> usize {
        match class {
            Class::ELF32 => 40,
            Class::ELF64 => 64,
        }
    }
}

impl SectionHeader {
    /// Helper method which uses checked integer math to get a tuple of (start,end) for
    /// this SectionHeader's (sh_offset, sh_offset + sh_size)
    pub(crate) fn get_data_range(&self) -> Result<(usize, usize), ParseError> {
        let start: usize = self.sh_offset.try_into()?;
        let size: usize = self.sh_size.try_into()?;
        let end = start.checked_add(size).ok_or(ParseError::IntegerOverflow)?;
        Ok((start, end))
    }
}
/// Lazy-parsing iterator which wraps bytes and parses out a `P: ParseAt` on each `next()`
#[derive(Debug)]
pub struct ParsingIterator<'data, E: EndianParse, P: ParseAt> {
    endian: E,
    class: Class,
    data: &'data [u8],
    offset: usize,
    // This struct doesn't technically own a P, but it yields them
    // as it iterates
    pd: PhantomData<&'data P>,
}

impl<'data, E: EndianParse, P: ParseAt> ParsingIterator<'data, E, P> {
    pub closed spec fn sdata(&self) -> &'data [u8] { self.data }
    pub closed spec fn soffset(&self) -> usize { self.offset }
    pub closed spec fn sclass(&self) -> Class { self.class }
    pub closed spec fn sendian(&self) -> E { self.endian }

    pub fn new(endian: E, class: Class, data: &'data [u8]) -> Self {
        ParsingIterator {
            endian,
            class,
            data,
            offset: 0,
            pd: PhantomData,
        }
    }
}

impl<E: EndianParse, P: ParseAt> vstd::std_specs::iter::IteratorSpecImpl for ParsingIterator<'_, E, P> {
    open spec fn obeys_prophetic_iter_laws(&self) -> bool { false }
    uninterp spec fn remaining(&self) -> Seq<P>;
    uninterp spec fn will_return_none(&self) -> bool;
    uninterp spec fn decrease(&self) -> Option<nat>;
    uninterp spec fn peek(&self, i: int) -> Option<P>;
}
impl<E: EndianParse, P: ParseAt> Iterator for ParsingIterator<'_, E, P> {
    type Item = P;
    fn next(&mut self) -> (r: Option<Self::Item>)
        ensures
            final(self).sdata() == old(self).sdata(), final(self).sclass() == old(self).sclass(), final(self).sendian() == old(self).sendian(),
            r is Some <==> (old(self).sdata()@.len() > 0 && read_ok(old(self).soffset(), P::spec_size(old(self).sclass()), old(self).sdata())
                 && P::spec_accepts(old(self).sendian().spec_is_little(), old(self).sclass(), old(self).sdata()@, old(self).soffset() as int)),
            r is Some ==> final(self).soffset() == old(self).soffset() + P::spec_size(old(self).sclass())
                 && r->Some_0 == P::spec_decode(old(self).sendian().spec_is_little(), old(self).sclass(), old(self).sdata()@, old(self).soffset() as int),
            r is None ==> final(self).soffset() >= old(self).soffset(),
    {
        if self.data.is_empty() {
            return None;
        }

        Self::Item::parse_at(self.endian, self.class, &mut self.offset, self.data).ok()
    }
}

/// Lazy-parsing table which wraps bytes and parses out a `P: ParseAt` at a given index into
/// the table on each `get()`.
#[derive(Debug, Clone, Copy)]
pub struct ParsingTable<'data, E: EndianParse, P: ParseAt> {
    endian: E,
    class: Class,
    data: &'data [u8],
    // This struct doesn't technically own a P, but it yields them
    pd: PhantomData<&'data P>,
}

impl<'data, E: EndianParse, P: ParseAt> ParsingTable<'data, E, P> {
    pub closed spec fn sdata(&self) -> &'data [u8] { self.data }
    pub closed spec fn sclass(&self) -> Class { self.class }
    pub closed spec fn sendian(&self) -> E { self.endian }
    pub open spec fn slen(&self) -> nat { self.sdata()@.len() / P::spec_size(self.sclass()) }

    pub fn new(endian: E, class: Class, data: &'data [u8]) -> (r: Self)
        ensures r.sdata() == data, r.sclass() == class, r.sendian() == endian
    {
        ParsingTable {
            endian,
            class,
            data,
            pd: PhantomData,
        }
    }

    /// Get a lazy-parsing iterator for the table's bytes
    pub fn iter(&self) -> ParsingIterator<'data, E, P> {
        ParsingIterator::new(self.endian, self.class, self.data)
    }

    /// Returns the number of elements of type P in the table.
    pub fn len(&self) -> (r: usize) ensures r == self.slen() {
        self.data.len() / P::size_for(self.class)
    }

    /// Returns whether the table is empty (contains zero elements).
    pub fn is_empty(&self) -> (r: bool) ensures r == (self.slen() == 0) {
        self.len() == 0
    }

    /// Parse the element at `index` in the table.
    pub fn get(&self, index: usize) -> (r: Result<P, ParseError>)
        ensures
            r is Ok <==> (index < self.slen() && P::spec_accepts(self.sendian().spec_is_little(), self.sclass(), self.sdata()@, index * P::spec_size(self.sclass()))),
            r is Ok ==> r->Ok_0 == P::spec_decode(self.sendian().spec_is_little(), self.sclass(), self.sdata()@, index * P::spec_size(self.sclass())),
    {
        proof { P::lemma_size_pos(self.sclass()); lemma_index_in_table(index as nat, P::spec_size(self.sclass()), self.sdata()@.len()); }
        if self.data.is_empty() {
            return Err(ParseError::BadOffset(index as u64));
        }

        let entsize = P::size_for(self.class);
        let mut start = index
            .checked_mul(entsize)
            .ok_or(ParseError::IntegerOverflow)?;
        if start > self.data.len() {
            return Err(ParseError::BadOffset(index as u64));
        }

        P::parse_at(self.endian, self.class, &mut start, self.data)
    }
}

impl<'data, E: EndianParse, P: ParseAt> IntoIterator for ParsingTable<'data, E, P> {
    type IntoIter = ParsingIterator<'data, E, P>;
    type Item = P;

    fn into_iter(self) -> Self::IntoIter {
        ParsingIterator::new(self.endian, self.class, self.data)
    }
}

// Simple convenience extension trait to wrap get() with .ok_or(SliceReadError)
pub(crate) trait ReadBytesExt<'data> {
    fn get_bytes(self, range: Range<usize>) -> Result<&'data [u8], ParseError>;
}

impl<'data> ReadBytesExt<'data> for &'data [u8] {
    fn get_bytes(self, range: Range<usize>) -> Result<&'data [u8], ParseError> {
        let start = range.start;
        let end = range.end;
        self.get(range)
            .ok_or(ParseError::SliceReadError((start, end)))
    }
}

pub uninterp spec fn utf8_model(b: Seq<u8>) -> Option<Seq<char>>;
pub assume_specification [core::str::from_utf8] (v: &[u8]) -> (r: Result<&str, core::str::Utf8Error>)
    ensures match r { Ok(st) => utf8_model(v@) == Some(st@), Err(_) => utf8_model(v@) is None };
impl From<core::str::Utf8Error> for ParseError {
    #[verifier::external_body]
    fn from(err: core::str::Utf8Error) -> Self { ParseError::Utf8Error(err) }
}
use core::str::from_utf8;
#[derive(Debug, Default, Clone, Copy)]
pub struct StringTable<'data> {
    data: &'data [u8],
}

impl<'data> StringTable<'data> {
    pub fn new(data: &'data [u8]) -> Self {
        StringTable { data }
    }

    pub closed spec fn sdata(&self) -> &'data [u8] { self.data }
    pub fn get_raw(&self, offset: usize) -> (r: Result<&'data [u8], ParseError>)
        ensures
            r is Ok <==> (offset < self.sdata()@.len() && exists|k: int| offset <= k < self.sdata()@.len() && self.sdata()@[k] == 0),
            r is Ok ==> ({ let s = r->Ok_0@; let d = self.sdata()@;
                 offset + s.len() < d.len() && s == d.subrange(offset as int, offset + s.len()) && d[offset + s.len()] == 0
                 && forall|k: int| 0 <= k < s.len() ==> s[k] != 0 }),
    {
        if self.data.is_empty() {
            return Err(ParseError::BadOffset(offset as u64));
        };

        let start = self
            .data
            .get(offset..)
            .ok_or(ParseError::BadOffset(offset as u64))?;
        let mut vit = start.iter();
        let ghost rem0 = vit.remaining();
        proof {
            assert(rem0.len() == start@.len());
            assert(forall|i: int| 0 <= i < start@.len() ==> *rem0[i] == start@[i]);
            assert(start@ =~= self.data@.subrange(offset as int, self.data@.len() as int));
        }
        let pos = vit
            .position(|b: &u8| -> (ret: bool) ensures ret == (*b == 0u8) { *b == 0u8 });
        proof {
            match pos {
                Some(k) => {
                    assert(*rem0[k as int] == 0u8);
                    assert(forall|j: int| 0 <= j < k ==> *rem0[j] != 0u8);
                    assert(self.data@[offset + k] == 0u8);
                }
                None => {
                    assert(forall|j: int| 0 <= j < rem0.len() ==> *rem0[j] != 0u8);
                    assert forall|q: int| offset <= q < self.data@.len() implies self.data@[q] != 0u8 by {
                        assert(*rem0[q - offset] != 0u8);
                        assert(self.data@[q] == start@[q - offset]);
                    }
                }
            }
        }
        let end = pos
            .ok_or(ParseError::StringTableMissingNul(offset as u64))?;
        proof {
            assert(start@.subrange(0, end as int) =~= self.data@.subrange(offset as int, offset + end));
            assert forall|q: int| 0 <= q < end implies start@.subrange(0, end as int)[q] != 0u8 by {
                assert(*rem0[q] != 0u8);
            }
        }

        Ok(start.split_at(end).0)
    }

    pub fn get(&self, offset: usize) -> (r: Result<&'data str, ParseError>)
        ensures
            r is Ok <==> (strz_ok(self.sdata()@, offset as int) && utf8_model(strz(self.sdata()@, offset as int)) is Some),
            r is Ok ==> r->Ok_0@ == utf8_model(strz(self.sdata()@, offset as int))->Some_0,
    {
        let raw_data = self.get_raw(offset)?;
        proof {
            assert(is_strz(self.sdata()@, offset as int, raw_data@));
            lemma_strz_unique(self.sdata()@, offset as int, raw_data@, strz(self.sdata()@, offset as int));
        }
        Ok(from_utf8(raw_data)?)
    }

}
pub mod abi { pub const SHN_UNDEF: u16 = 0; }
pub assume_specification [u32::checked_shr] (x: u32, n: u32) -> (r: Option<u32>)
    ensures n < 32 ==> r == Some(x >> n), n >= 32 ==> r is None;
pub assume_specification<'a, T, P: FnMut(&'a T) -> bool> [<core::slice::Iter<'a, T> as Iterator>::position] (it: &mut core::slice::Iter<'a, T>, pred: P) -> (r: Option<usize>)
    where core::slice::Iter<'a, T>: Sized
    requires forall|i: int| 0 <= i < old(it).remaining().len() ==> call_requires(pred, (#[trigger] old(it).remaining()[i],)),
    ensures match r {
        Some(k) => k < old(it).remaining().len() && call_ensures(pred, (old(it).remaining()[k as int],), true)
            && forall|j: int| 0 <= j < k ==> call_ensures(pred, (#[trigger] old(it).remaining()[j],), false),
        None => forall|j: int| 0 <= j < old(it).remaining().len() ==> call_ensures(pred, (#[trigger] old(it).remaining()[j],), false),
    };

pub type SymbolTable<'data, E> = ParsingTable<'data, E, Symbol>;
#[derive(Debug, Clone, PartialEq, Eq)]
pub struct Symbol {
    /// This member holds an index into the symbol table's string table,
    /// which holds the character representations of the symbol names. If the
    /// value is non-zero, it represents a string table index that gives the
    /// symbol name. Otherwise, the symbol table entry has no name.
    pub st_name: u32,

    /// Every symbol table entry is defined in relation to some section. This
    /// member holds the relevant section header table index. As the sh_link and
    /// sh_info interpretation table and the related text describe, some section
    /// indexes indicate special meanings.
    ///
    /// If this member contains SHN_XINDEX, then the actual section header index
    /// is too large to fit in this field. The actual value is contained in the
    /// associated section of type SHT_SYMTAB_SHNDX.
    pub st_shndx: u16,

    /// This member specifies the symbol's type and binding attributes.
    pub st_info: u8,

    /// This member currently specifies a symbol's visibility.
    pub st_other: u8,

    /// This member gives the value of the associated symbol. Depending on the
    /// context, this may be an absolute value, an address, and so on.
    ///
    /// * In relocatable files, st_value holds alignment constraints for a
    ///   symbol whose section index is SHN_COMMON.
    /// * In relocatable files, st_value holds a section offset for a defined
    ///   symbol. st_value is an offset from the beginning of the section that
    ///   st_shndx identifies.
    /// * In executable and shared object files, st_value holds a virtual
    ///   address. To make these files' symbols more useful for the dynamic
    ///   linker, the section offset (file interpretation) gives way to a
    ///   virtual address (memory interpretation) for which the section number
    ///   is irrelevant.
    pub st_value: u64,

    /// This member gives the symbol's size.
    /// For example, a data object's size is the number of bytes contained in
    /// the object. This member holds 0 if the symbol has no size or an unknown
    /// size.
    pub st_size: u64,
}

impl Symbol {
    /// Returns true if a symbol is undefined in this ELF object.
    ///
    /// When linking and loading, undefined symbols in this object get linked to
    /// a defined symbol in another object.
    pub fn is_undefined(&self) -> bool {
        self.st_shndx == abi::SHN_UNDEF
    }

    pub fn st_symtype(&self) -> u8 {
        self.st_info & 0xf
    }

    pub fn st_bind(&self) -> u8 {
        self.st_info >> 4
    }

    pub fn st_vis(&self) -> u8 {
        self.st_other & 0x3
    }
}

impl ParseAt for Symbol {
    open spec fn spec_size(class: Class) -> nat { match class { Class::ELF32 => 16, Class::ELF64 => 24 } }
    proof fn lemma_size_pos(class: Class) {}
    open spec fn spec_accepts(little: bool, class: Class, w: Seq<u8>, b: int) -> bool { true }
    open spec fn spec_decode(little: bool, class: Class, w: Seq<u8>, b: int) -> Self {
        match class {
            Class::ELF32 => Symbol { st_name: fld(little, w, b, 4) as u32, st_value: fld(little, w, b + 4, 4) as u64, st_size: fld(little, w, b + 8, 4) as u64,
                                     st_info: fld(little, w, b + 12, 1) as u8, st_other: fld(little, w, b + 13, 1) as u8, st_shndx: fld(little, w, b + 14, 2) as u16 },
            Class::ELF64 => Symbol { st_name: fld(little, w, b, 4) as u32, st_info: fld(little, w, b + 4, 1) as u8, st_other: fld(little, w, b + 5, 1) as u8,
                                     st_shndx: fld(little, w, b + 6, 2) as u16, st_value: fld(little, w, b + 8, 8) as u64, st_size: fld(little, w, b + 16, 8) as u64 },
        }
    }

    fn parse_at<E: EndianParse>(
        endian: E,
        class: Class,
        offset: &mut usize,
        data: &[u8],
    ) -> Result<Self, ParseError> {
        let st_name: u32;
        let st_value: u64;
        let st_size: u64;
        let st_shndx: u16;
        let st_info: u8;
        let st_other: u8;

        if class == Class::ELF32 {
            st_name = endian.parse_u32_at(offset, data)?;
            st_value = endian.parse_u32_at(offset, data)? as u64;
            st_size = endian.parse_u32_at(offset, data)? as u64;
            st_info = endian.parse_u8_at(offset, data)?;
            st_other = endian.parse_u8_at(offset, data)?;
            st_shndx = endian.parse_u16_at(offset, data)?;
        } else {
            st_name = endian.parse_u32_at(offset, data)?;
            st_info = endian.parse_u8_at(offset, data)?;
            st_other = endian.parse_u8_at(offset, data)?;
            st_shndx = endian.parse_u16_at(offset, data)?;
            st_value = endian.parse_u64_at(offset, data)?;
            st_size = endian.parse_u64_at(offset, data)?;
        }

        Ok(Symbol {
            st_name,
            st_value,
            st_size,
            st_shndx,
            st_info,
            st_other,
        })
    }

    #[inline]
    fn size_for(class: Class) -> usize {
        match class {
            Class::ELF32 => 16,
            Class::ELF64 => 24,
        }
    }
}
use core::mem::size_of;
impl ParseAt for u32 {
    open spec fn spec_size(class: Class) -> nat { 4 }
    proof fn lemma_size_pos(class: Class) {}
    open spec fn spec_accepts(little: bool, class: Class, w: Seq<u8>, b: int) -> bool { true }
    open spec fn spec_decode(little: bool, class: Class, w: Seq<u8>, b: int) -> Self { fld(little, w, b, 4) as u32 }

    fn parse_at<E: EndianParse>(
        endian: E,
        _class: Class,
        offset: &mut usize,
        data: &[u8],
    ) -> Result<Self, ParseError> {
        endian.parse_u32_at(offset, data)
    }

    #[inline]
    fn size_for(_class: Class) -> usize {
        core::mem::size_of::<u32>()
    }
}

type U32Table<'data, E> = ParsingTable<'data, E, u32>;

/// Header at the start of SysV Hash Table sections of type [SHT_HASH](crate::abi::SHT_HASH).
#[derive(Debug, Clone, PartialEq, Eq)]
pub struct SysVHashHeader {
    pub nbucket: u32,
    pub nchain: u32,
}

impl ParseAt for SysVHashHeader {
    open spec fn spec_size(class: Class) -> nat { 8 }
    proof fn lemma_size_pos(class: Class) {}
    open spec fn spec_accepts(little: bool, class: Class, w: Seq<u8>, b: int) -> bool { true }
    open spec fn spec_decode(little: bool, class: Class, w: Seq<u8>, b: int) -> Self { SysVHashHeader { nbucket: fld(little, w, b, 4) as u32, nchain: fld(little, w, b + 4, 4) as u32 } }

    fn parse_at<E: EndianParse>(
        endian: E,
        _class: Class,
        offset: &mut usize,
        data: &[u8],
    ) -> Result<Self, ParseError> {
        Ok(SysVHashHeader {
            nbucket: endian.parse_u32_at(offset, data)?,
            nchain: endian.parse_u32_at(offset, data)?,
        })
    }

    #[inline]
    fn size_for(_class: Class) -> usize {
        size_of::<u32>() + size_of::<u32>()
    }
}

/// Calculate the SysV hash value for a given symbol name.
pub fn sysv_hash(name: &[u8]) -> u32 {
    let mut hash = 0u32;
    for byte in name {
        hash = hash.wrapping_mul(16).wrapping_add(*byte as u32);
        hash ^= (hash >> 24) & 0xf0;
    }
    hash & 0xfffffff
}

#[derive(Debug)]
pub struct SysVHashTable<'data, E: EndianParse> {
    buckets: U32Table<'data, E>,
    chains: U32Table<'data, E>,
}

/// This constructs a lazy-parsing type that keeps a reference to the provided data
/// bytes from which it lazily parses and interprets its contents.
impl<'data, E: EndianParse> SysVHashTable<'data, E> {
    /// Construct a SysVHashTable from given bytes. Keeps a reference to the data for lazy parsing.
    pub fn new(endian: E, class: Class, data: &'data [u8]) -> Result<Self, ParseError> {
        let mut offset = 0;
        let hdr = SysVHashHeader::parse_at(endian, class, &mut offset, data)?;

        let buckets_size = size_of::<u32>()
            .checked_mul(hdr.nbucket.try_into()?)
            .ok_or(ParseError::IntegerOverflow)?;
        let buckets_end = offset
            .checked_add(buckets_size)
            .ok_or(ParseError::IntegerOverflow)?;
        let buckets_buf = data.get_bytes(offset..buckets_end)?;
        let buckets = U32Table::new(endian, class, buckets_buf);
        offset = buckets_end;

        let chains_size = size_of::<u32>()
            .checked_mul(hdr.nchain.try_into()?)
            .ok_or(ParseError::IntegerOverflow)?;
        let chains_end = offset
            .checked_add(chains_size)
            .ok_or(ParseError::IntegerOverflow)?;
        let chains_buf = data.get_bytes(offset..chains_end)?;
        let chains = U32Table::new(endian, class, chains_buf);

        Ok(SysVHashTable { buckets, chains })
    }

    /// Use the hash table to find the symbol table entry with the given name and hash.
    pub fn find(
        &self,
        name: &[u8],
        symtab: &SymbolTable<'data, E>,
        strtab: &StringTable<'data>,
    ) -> Result<Option<(usize, Symbol)>, ParseError> {
        // empty hash tables don't have any entries. This avoids a divde by zero in the modulus calculation
        if self.buckets.is_empty() {
            return Ok(None);
        }

        let hash = sysv_hash(name);

        let start = (hash as usize) % self.buckets.len();
        let mut index = self.buckets.get(start)? as usize;

        // Bound the number of chain lookups by the chain size so we don't loop forever
        let mut i = 0;
        while index != 0 && i < self.chains.len()
            decreases self.chains.slen() - i
        {
            let symbol = symtab.get(index)?;
            if strtab.get_raw(symbol.st_name as usize)? == name {
                return Ok(Some((index, symbol)));
            }

            index = self.chains.get(index)? as usize;
            i += 1;
        }
        Ok(None)
    }
}

/// Calculate the GNU hash for a given symbol name.
pub open spec fn add32(a: u32, b: u32) -> u32 { ((a as int + b as int) % 0x1_0000_0000) as u32 }
pub open spec fn mul32(a: u32, b: u32) -> u32 { ((a as int * b as int) % 0x1_0000_0000) as u32 }
pub open spec fn gnu_hash_ref(s: Seq<u8>) -> u32 decreases s.len() {
    if s.len() == 0 { 5381u32 } else { add32(mul32(gnu_hash_ref(s.drop_last()), 33), s.last() as u32) }
}
pub fn gnu_hash(name: &[u8]) -> (r: u32)
    ensures r == gnu_hash_ref(name@)
{
    let mut hash = 5381u32;
    proof { assert(name@.take(0) =~= Seq::<u8>::empty()); }
    for byte in it: name
        invariant hash == gnu_hash_ref(name@.take(it.index@ as int)),
    {
        proof {
            let i = it.index@ as int;
            assert(name@.take(i + 1).drop_last() =~= name@.take(i));
            assert(name@.take(i + 1).last() == *byte);
        }
        hash = hash.wrapping_mul(33).wrapping_add(u32::from(*byte));
    }
    proof { assert(name@.take(name@.len() as int) =~= name@); }
    hash
}

/// Header at the start of a GNU extension Hash Table section of type [SHT_GNU_HASH](crate::abi::SHT_GNU_HASH).
#[derive(Debug, Clone, PartialEq, Eq)]
pub struct GnuHashHeader {
    pub nbucket: u32,
    /// The symbol table index of the first symbol in the hash table.
    /// (GNU hash sections omit symbols at the start of the table that wont be looked up)
    pub table_start_idx: u32,
    /// The number of words in the bloom filter. (must be a non-zero power of 2)
    pub nbloom: u32,
    /// The bit shift count for the bloom filter.
    pub nshift: u32,
}

impl ParseAt for GnuHashHeader {
    open spec fn spec_size(class: Class) -> nat { 16 }
    proof fn lemma_size_pos(class: Class) {}
    open spec fn spec_accepts(little: bool, class: Class, w: Seq<u8>, b: int) -> bool { true }
    open spec fn spec_decode(little: bool, class: Class, w: Seq<u8>, b: int) -> Self { GnuHashHeader { nbucket: fld(little, w, b, 4) as u32, table_start_idx: fld(little, w, b + 4, 4) as u32, nbloom: fld(little, w, b + 8, 4) as u32, nshift: fld(little, w, b + 12, 4) as u32 } }

    fn parse_at<E: EndianParse>(
        endian: E,
        _class: Class,
        offset: &mut usize,
        data: &[u8],
    ) -> Result<Self, ParseError> {
        Ok(GnuHashHeader {
            nbucket: endian.parse_u32_at(offset, data)?,
            table_start_idx: endian.parse_u32_at(offset, data)?,
            nbloom: endian.parse_u32_at(offset, data)?,
            nshift: endian.parse_u32_at(offset, data)?,
        })
    }

    #[inline]
    fn size_for(_class: Class) -> usize {
        size_of::<u32>() + size_of::<u32>() + size_of::<u32>() + size_of::<u32>()
    }
}

type U64Table<'data, E> = ParsingTable<'data, E, u64>;

impl ParseAt for u64 {
    open spec fn spec_size(class: Class) -> nat { 8 }
    proof fn lemma_size_pos(class: Class) {}
    open spec fn spec_accepts(little: bool, class: Class, w: Seq<u8>, b: int) -> bool { true }
    open spec fn spec_decode(little: bool, class: Class, w: Seq<u8>, b: int) -> Self { fld(little, w, b, 8) as u64 }

    fn parse_at<E: EndianParse>(
        endian: E,
        _class: Class,
        offset: &mut usize,
        data: &[u8],
    ) -> Result<Self, ParseError> {
        endian.parse_u64_at(offset, data)
    }

    #[inline]
    fn size_for(_class: Class) -> usize {
        core::mem::size_of::<u64>()
    }
}

#[derive(Debug)]
pub struct GnuHashTable<'data, E: EndianParse> {
    pub hdr: GnuHashHeader,

    endian: E,
    class: Class,
    bloom: &'data [u8],
    buckets: U32Table<'data, E>,
    chains: U32Table<'data, E>,
}


// ---------- reference semantics (from the GNU hash section description) ----------
pub open spec fn is_strz(d: Seq<u8>, off: int, t: Seq<u8>) -> bool {
    &&& 0 <= off && off + t.len() < d.len() && t == d.subrange(off, off + t.len()) && d[off + t.len()] == 0
    &&& forall|k: int| 0 <= k < t.len() ==> t[k] != 0
}
pub open spec fn strz_ok(d: Seq<u8>, off: int) -> bool { 0 <= off < d.len() && exists|k: int| off <= k < d.len() && d[k] == 0 }
pub open spec fn strz(d: Seq<u8>, off: int) -> Seq<u8> { choose|t: Seq<u8>| is_strz(d, off, t) }
pub proof fn lemma_strz_unique(d: Seq<u8>, off: int, a: Seq<u8>, b: Seq<u8>)
    requires is_strz(d, off, a), is_strz(d, off, b)
    ensures a == b
{
    if a.len() < b.len() { assert(b[a.len() as int] == d[off + a.len()]); assert(false); }
    if b.len() < a.len() { assert(a[b.len() as int] == d[off + b.len()]); assert(false); }
    assert(a =~= b);
}
pub open spec fn tbl_u32<E: EndianParse>(t: &U32Table<'_, E>, i: int) -> u32 {
    u32::spec_decode(t.sendian().spec_is_little(), t.sclass(), t.sdata()@, i * 4)
}
pub open spec fn sym_at<E: EndianParse>(t: &SymbolTable<'_, E>, i: int) -> Symbol {
    Symbol::spec_decode(t.sendian().spec_is_little(), t.sclass(), t.sdata()@, i * Symbol::spec_size(t.sclass()))
}
pub enum Lk { Err, NotFound, Found(int) }
// chain walk from chain index i
pub open spec fn gnu_walk<E: EndianParse>(chains: &U32Table<'_, E>, symoff: int, h: u32, name: Seq<u8>, symtab: &SymbolTable<'_, E>, strs: Seq<u8>, i: int) -> Lk
    decreases chains.slen() - i
{
    if i < 0 || i >= chains.slen() { Lk::NotFound } else {
        let ch = tbl_u32(chains, i);
        if (h | 1) == (ch | 1) {
            let si = i + symoff;
            if si > usize::MAX || si >= symtab.slen() { Lk::Err }
            else if !strz_ok(strs, sym_at(symtab, si).st_name as int) { Lk::Err }
            else if strz(strs, sym_at(symtab, si).st_name as int) == name { Lk::Found(si) }
            else if ch & 1 != 0 { Lk::NotFound } else { gnu_walk(chains, symoff, h, name, symtab, strs, i + 1) }
        } else if ch & 1 != 0 { Lk::NotFound } else { gnu_walk(chains, symoff, h, name, symtab, strs, i + 1) }
    }
}

pub open spec fn tbl_u64<E: EndianParse>(t: &U64Table<'_, E>, i: int) -> u64 {
    u64::spec_decode(t.sendian().spec_is_little(), t.sclass(), t.sdata()@, i * 8)
}
pub open spec fn lk_matches<E: EndianParse>(r: Result<Option<(usize, Symbol)>, ParseError>, l: Lk, symtab: &SymbolTable<'_, E>) -> bool {
    match l {
        Lk::Err => r is Err,
        Lk::NotFound => r is Ok && r->Ok_0 is None,
        Lk::Found(i) => r is Ok && r->Ok_0 is Some && r->Ok_0->Some_0.0 == i && r->Ok_0->Some_0.1 == sym_at(symtab, i),
    }
}
impl<'data, E: EndianParse> GnuHashTable<'data, E> {
    pub closed spec fn s_chains(&self) -> &U32Table<'data, E> { &self.chains }
    pub closed spec fn s_buckets(&self) -> &U32Table<'data, E> { &self.buckets }
    pub closed spec fn s_bloom(&self) -> &'data [u8] { self.bloom }
    pub closed spec fn s_class(&self) -> Class { self.class }
    pub closed spec fn s_endian(&self) -> E { self.endian }
    /// GNU hash lookup as the format defines it, over whatever bytes the table holds
    pub closed spec fn s_hdr(&self) -> GnuHashHeader { self.hdr }
    pub open spec fn lookup_ref(&self, name: Seq<u8>, symtab: &SymbolTable<'data, E>, strs: Seq<u8>) -> Lk {
        let h = gnu_hash_ref(name);
        let nb = self.s_buckets().slen();
        if nb == 0 || self.s_hdr().nbloom == 0 { Lk::NotFound } else {
            let c: u32 = match self.s_class() { Class::ELF32 => 32u32, Class::ELF64 => 64u32 };
            let bi = ((h / c) % self.s_hdr().nbloom) as int;
            let nwords = match self.s_class() { Class::ELF32 => self.s_bloom()@.len() / 4, Class::ELF64 => self.s_bloom()@.len() / 8 };
            if bi >= nwords { Lk::Err } else {
                let l = self.s_endian().spec_is_little();
                let word: u64 = match self.s_class() {
                    Class::ELF32 => u32::spec_decode(l, self.s_class(), self.s_bloom()@, bi * 4) as u64,
                    Class::ELF64 => u64::spec_decode(l, self.s_class(), self.s_bloom()@, bi * 8),
                };
                if word & (1u64 << (h % c)) == 0 { Lk::NotFound }
                else if self.s_hdr().nshift >= 32 { Lk::Err }
                else if word & (1u64 << ((h >> self.s_hdr().nshift) % c)) == 0 { Lk::NotFound }
                else {
                    let b = tbl_u32(self.s_buckets(), (h as int) % (nb as int)) as int;
                    let so = self.s_hdr().table_start_idx as int;
                    if b < so { Lk::NotFound } else { gnu_walk(self.s_chains(), so, h, name, symtab, strs, b - so) }
                }
            }
        }
    }

    /// Construct a GnuHashTable from given bytes. Keeps a reference to the data for lazy parsing.
    pub fn new(endian: E, class: Class, data: &'data [u8]) -> Result<Self, ParseError> {
        let mut offset = 0;
        let hdr = GnuHashHeader::parse_at(endian, class, &mut offset, data)?;

        // length of the bloom filter in bytes. ELF32 is [u32; nbloom], ELF64 is [u64; nbloom].
        let nbloom: usize = hdr.nbloom as usize;
        let bloom_size = match class {
            Class::ELF32 => nbloom
                .checked_mul(size_of::<u32>())
                .ok_or(ParseError::IntegerOverflow)?,
            Class::ELF64 => nbloom
                .checked_mul(size_of::<u64>())
                .ok_or(ParseError::IntegerOverflow)?,
        };
        let bloom_end = offset
            .checked_add(bloom_size)
            .ok_or(ParseError::IntegerOverflow)?;
        let bloom_buf = data.get_bytes(offset..bloom_end)?;
        offset = bloom_end;

        let buckets_size = size_of::<u32>()
            .checked_mul(hdr.nbucket.try_into()?)
            .ok_or(ParseError::IntegerOverflow)?;
        let buckets_end = offset
            .checked_add(buckets_size)
            .ok_or(ParseError::IntegerOverflow)?;
        let buckets_buf = data.get_bytes(offset..buckets_end)?;
        let buckets = U32Table::new(endian, class, buckets_buf);
        offset = buckets_end;

        // the rest of the section is the chains
        let chains_buf = data
            .get(offset..)
            .ok_or(ParseError::SliceReadError((offset, data.len())))?;
        let chains = U32Table::new(endian, class, chains_buf);

        Ok(GnuHashTable {
            hdr,
            endian,
            class,
            bloom: bloom_buf,
            buckets,
            chains,
        })
    }

    /// Use the hash table to find the symbol table entry with the given name.
    pub fn find(
        &self,
        name: &[u8],
        symtab: &SymbolTable<'data, E>,
        strtab: &StringTable<'data>,
    ) -> (r: Result<Option<(usize, Symbol)>, ParseError>)
        ensures lk_matches(r, self.lookup_ref(name@, symtab, strtab.sdata()@), symtab)
    {
        // empty hash tables don't have any entries. This avoids a divde by zero in the modulus calculation,
        // and also avoids a potential division by zero panic in the bloom filter index calculation.
        if self.buckets.is_empty() || self.hdr.nbloom == 0 {
            return Ok(None);
        }

        let hash = gnu_hash(name);

        // Test against bloom filter.
        let (bloom_width, filter) = match self.class {
            Class::ELF32 => {
                let bloom_width: u32 = 8 * size_of::<u32>() as u32; // 32
                let bloom_idx = (hash / (bloom_width)) % self.hdr.nbloom;
                let bloom_table = U32Table::new(self.endian, self.class, self.bloom);
                (bloom_width, bloom_table.get(bloom_idx as usize)? as u64)
            }
            Class::ELF64 => {
                let bloom_width: u32 = 8 * size_of::<u64>() as u32; // 64
                let bloom_idx = (hash / (bloom_width)) % self.hdr.nbloom;
                let bloom_table = U64Table::new(self.endian, self.class, self.bloom);
                (bloom_width, bloom_table.get(bloom_idx as usize)?)
            }
        };

        // Check bloom filter for both hashes - symbol is present in the hash table IFF both bits are set.
        if filter & (1 << (hash % bloom_width)) == 0 {
            return Ok(None);
        }
        let hash2 = hash
            .checked_shr(self.hdr.nshift)
            .ok_or(ParseError::IntegerOverflow)?;
        if filter & (1 << (hash2 % bloom_width)) == 0 {
            return Ok(None);
        }

        let table_start_idx = self.hdr.table_start_idx as usize;
        let chain_start_idx = self.buckets.get((hash as usize) % self.buckets.len())? as usize;
        if chain_start_idx < table_start_idx {
            // All symbols before table_start_idx don't exist in the hash table
            return Ok(None);
        }

        let chain_len = self.chains.len();
        let ghost h = gnu_hash_ref(name@);
        let ghost so = table_start_idx as int;
        let ghost start = chain_start_idx - table_start_idx;
        let ghost strs = strtab.sdata()@;
        let ghost mut done = false;
        proof {
            assert(self.lookup_ref(name@, symtab, strs) == gnu_walk(self.s_chains(), so, h, name@, symtab, strs, start));
        }
        let mut vit = ((chain_start_idx - table_start_idx)..chain_len).into_iter();
        loop
            invariant_except_break
                !done,
            invariant
                vit.end == chain_len, vit.start >= start,
                hash == h, so == table_start_idx as int, strs == strtab.sdata()@, chain_len == self.s_chains().slen(),
                start == chain_start_idx - table_start_idx, start >= 0,
                !done ==> self.lookup_ref(name@, symtab, strs) == gnu_walk(self.s_chains(), so, h, name@, symtab, strs, vit.start as int),
                done ==> self.lookup_ref(name@, symtab, strs) == Lk::NotFound,
            ensures done || vit.start >= chain_len
            decreases vit.end - vit.start, if done { 0int } else { 1int }
        { let chain_idx = match vit.next() { Some(v) => v, None => break, };
            let chain_hash = self.chains.get(chain_idx)?;

            // compare the hashes by or'ing the 1's bit back on
            if hash | 1 == chain_hash | 1 {
                // we have a hash match!
                // let's see if this symtab[sym_idx].name is what we're looking for
                let sym_idx = chain_idx
                    .checked_add(table_start_idx)
                    .ok_or(ParseError::IntegerOverflow)?;
                let symbol = symtab.get(sym_idx)?;
                let r_sym_name = strtab.get_raw(symbol.st_name as usize)?;
                proof {
                    let off = symbol.st_name as int;
                    assert(is_strz(strs, off, r_sym_name@));
                    lemma_strz_unique(strs, off, r_sym_name@, strz(strs, off));
                }

                proof {
                    assert(strz(strs, symbol.st_name as int) == r_sym_name@);
                    assert(symbol == sym_at(symtab, sym_idx as int));
                    assert(self.lookup_ref(name@, symtab, strs) == gnu_walk(self.s_chains(), so, h, name@, symtab, strs, chain_idx as int));
                }
                if r_sym_name == name {
                    proof { assert(r_sym_name@ == name@); }
                    return Ok(Some((sym_idx, symbol)));
                }
            }

            // the chain uses the 1's bit to signal chain comparison stoppage
            if chain_hash & 1 != 0 {
                proof { done = true; }
                break;
            }
        }

        Ok(None)
    }
}

global size_of usize == 8;
pub mod vabi { pub const VER_NDX_VERSION: u16 = 0x7fff; pub const VER_NDX_LOCAL: u16 = 0; pub const VER_NDX_GLOBAL: u16 = 1; pub const VER_NDX_HIDDEN: u16 = 0x8000; pub const VER_DEF_CURRENT: u16 = 1; pub const VER_NEED_CURRENT: u16 = 1; }
#[derive(Debug, PartialEq, Eq)]
pub struct SymbolRequirement<'data> {
    pub file: &'data str,
    pub name: &'data str,
    pub hash: u32,
    pub flags: u16,
    pub hidden: bool,
}

#[derive(Debug)]
pub struct SymbolDefinition<'data, E: EndianParse> {
    pub hash: u32,
    pub flags: u16,
    pub names: SymbolNamesIterator<'data, E>,
    pub hidden: bool,
}

#[derive(Debug)]
pub struct SymbolNamesIterator<'data, E: EndianParse> {
    vda_iter: VerDefAuxIterator<'data, E>,
    strtab: &'data StringTable<'data>,
}

impl<'data, E: EndianParse> SymbolNamesIterator<'data, E> {
    pub fn new(vda_iter: VerDefAuxIterator<'data, E>, strtab: &'data StringTable<'data>) -> Self {
        SymbolNamesIterator { vda_iter, strtab }
    }
}

impl<'data, E: EndianParse> vstd::std_specs::iter::IteratorSpecImpl for SymbolNamesIterator<'data, E> {
    open spec fn obeys_prophetic_iter_laws(&self) -> bool { false }
    uninterp spec fn remaining(&self) -> Seq<Result<&'data str, ParseError>>;
    uninterp spec fn will_return_none(&self) -> bool;
    uninterp spec fn decrease(&self) -> Option<nat>;
    uninterp spec fn peek(&self, i: int) -> Option<Result<&'data str, ParseError>>;
}
impl<'data, E: EndianParse> Iterator for SymbolNamesIterator<'data, E> {
    type Item = Result<&'data str, ParseError>;
    fn next(&mut self) -> Option<Self::Item> {
        let vda = self.vda_iter.next();
        match vda {
            Some(vda) => Some(self.strtab.get(vda.vda_name as usize)),
            None => None,
        }
    }
}

#[derive(Debug)]
pub struct SymbolVersionTable<'data, E: EndianParse> {
    version_ids: VersionIndexTable<'data, E>,

    verneeds: Option<(VerNeedIterator<'data, E>, StringTable<'data>)>,
    verdefs: Option<(VerDefIterator<'data, E>, StringTable<'data>)>,
}


pub enum ReqRes { Err, Absent, Present { file: Seq<char>, name: Seq<char>, hash: u32, flags: u16, hidden: bool } }
pub open spec fn strtab_get(d: Seq<u8>, off: int) -> Option<Seq<char>> {
    if strz_ok(d, off) { utf8_model(strz(d, off)) } else { None }
}
pub open spec fn versym_at<E: EndianParse>(t: &VersionIndexTable<'_, E>, i: int) -> u16 {
    fld(t.sendian().spec_is_little(), t.sdata()@, i * 2, 2) as u16
}
impl<'data, E: EndianParse> SymbolVersionTable<'data, E> {
    pub closed spec fn s_ids(&self) -> &VersionIndexTable<'data, E> { &self.version_ids }
    pub closed spec fn s_needs(&self) -> Option<(VerNeedIterator<'data, E>, StringTable<'data>)> { self.verneeds }
    /// what the GNU symbol-versioning layout says symbol `i` requires
    pub open spec fn req_ref(&self, i: int) -> ReqRes {
        match self.s_needs() {
            None => ReqRes::Absent,
            Some((it, strs)) => {
                if !(0 <= i < self.s_ids().slen()) { ReqRes::Err } else {
                    let v = versym_at(self.s_ids(), i);
                    let l = it.s_endian().spec_is_little(); let d = it.s_data()@;
                    match need_walk(l, it.s_class(), d, it.s_off() as int, it.s_count() as int, v & 0x7fff) {
                        None => ReqRes::Absent,
                        Some((vo, ao)) => {
                            let f = strtab_get(strs.sdata()@, vn_at(l, it.s_class(), d, vo).s_file() as int);
                            let n = strtab_get(strs.sdata()@, vna_at(l, it.s_class(), d, ao).s_name() as int);
                            if f is None || n is None { ReqRes::Err } else {
                                ReqRes::Present { file: f->Some_0, name: n->Some_0, hash: vna_at(l, it.s_class(), d, ao).s_hash(),
                                                  flags: vna_at(l, it.s_class(), d, ao).s_flags(), hidden: v & 0x8000 != 0 }
                            }
                        }
                    }
                }
            }
        }
    }

    pub fn new(
        version_ids: VersionIndexTable<'data, E>,
        verneeds: Option<(VerNeedIterator<'data, E>, StringTable<'data>)>,
        verdefs: Option<(VerDefIterator<'data, E>, StringTable<'data>)>,
    ) -> Self {
        SymbolVersionTable {
            version_ids,
            verneeds,
            verdefs,
        }
    }

    pub fn get_requirement(
        &self,
        sym_idx: usize,
    ) -> (r: Result<Option<SymbolRequirement<'_>>, ParseError>)
        ensures match self.req_ref(sym_idx as int) {
            ReqRes::Err => r is Err,
            ReqRes::Absent => r is Ok && r->Ok_0 is None,
            ReqRes::Present { file, name, hash, flags, hidden } => r is Ok && r->Ok_0 is Some && r->Ok_0->Some_0.file@ == file && r->Ok_0->Some_0.name@ == name
                 && r->Ok_0->Some_0.hash == hash && r->Ok_0->Some_0.flags == flags && r->Ok_0->Some_0.hidden == hidden,
        }
    {
        let (verneeds, verneed_strs) = match self.verneeds {
            Some(verneeds) => verneeds,
            None => {
                return Ok(None);
            }
        };

        let ver_ndx = self.version_ids.get(sym_idx)?;
        let iter = verneeds;
        let ghost l = iter.s_endian().spec_is_little(); let ghost cls = iter.s_class(); let ghost d = iter.s_data()@;
        let ghost idx = versym_at(self.s_ids(), sym_idx as int) & 0x7fff;
        let ghost goal = need_walk(l, cls, d, iter.s_off() as int, iter.s_count() as int, idx);
        proof { assert(ver_ndx.0 == versym_at(self.s_ids(), sym_idx as int)); }
        let mut vit = iter; loop
            invariant
                vit.s_endian().spec_is_little() == l, vit.s_class() == cls, vit.s_data()@ == d,
                l == iter.s_endian().spec_is_little(), cls == iter.s_class(), d == iter.s_data()@, idx == versym_at(self.s_ids(), sym_idx as int) & 0x7fff,
                self.s_needs() == Some((iter, verneed_strs)),
                0 <= sym_idx < self.s_ids().slen(), ver_ndx.0 == versym_at(self.s_ids(), sym_idx as int), idx == ver_ndx.0 & 0x7fff,
                goal == need_walk(l, cls, d, iter.s_off() as int, iter.s_count() as int, idx),
                goal == need_walk(l, cls, d, vit.s_off() as int, vit.s_count() as int, idx),
            ensures goal is None
            decreases vit.s_count()
        { let ghost vo = vit.s_off() as int; let ghost vc = vit.s_count() as int;
          let (vn, vna_iter) = match vit.next() { Some(v) => v, None => break, };
            let ghost agoal = aux_walk(l, cls, d, vo + vn.s_aux(), vn.s_cnt() as int, idx);
            let mut vit2 = vna_iter; loop
                invariant
                    vit2.s_endian().spec_is_little() == l, vit2.s_class() == cls, vit2.s_data()@ == d,
                    l == iter.s_endian().spec_is_little(), cls == iter.s_class(), d == iter.s_data()@, idx == versym_at(self.s_ids(), sym_idx as int) & 0x7fff,
                    vn == vn_at(l, cls, d, vo), need_ok(l, cls, d, vo, vc),
                    goal == need_walk(l, cls, d, vo, vc, idx),
                    agoal == aux_walk(l, cls, d, vo + vn.s_aux(), vn.s_cnt() as int, idx),
                    agoal == aux_walk(l, cls, d, vit2.s_off() as int, vit2.s_count() as int, idx),
                    self.s_needs() == Some((iter, verneed_strs)),
                    0 <= sym_idx < self.s_ids().slen(), ver_ndx.0 == versym_at(self.s_ids(), sym_idx as int), idx == ver_ndx.0 & 0x7fff,
                    goal == need_walk(l, cls, d, iter.s_off() as int, iter.s_count() as int, idx),
                ensures agoal is None
                decreases vit2.s_count()
            { let ghost ao = vit2.s_off() as int;
              let vna = match vit2.next() { Some(v) => v, None => break, };
                if vna.vna_other != ver_ndx.index() {
                    continue;
                }

                let file = verneed_strs.get(vn.vn_file as usize)?;
                let name = verneed_strs.get(vna.vna_name as usize)?;
                let hash = vna.vna_hash;
                let hidden = ver_ndx.is_hidden();
                return Ok(Some(SymbolRequirement {
                    file,
                    name,
                    hash,
                    flags: vna.vna_flags,
                    hidden,
                }));
            }
        }

        // Maybe we should treat this as a ParseError instead of returning an
        // empty Option? This can only happen if .gnu.versions[N] contains an
        // index that doesn't exist, which is likely a file corruption or
        // programmer error (i.e asking for a requirement for a defined symbol)
        Ok(None)
    }

    #[verifier::exec_allows_no_decreases_clause]
    pub fn get_definition(
        &self,
        sym_idx: usize,
    ) -> Result<Option<SymbolDefinition<'_, E>>, ParseError> {
        let (ref verdefs, ref verdef_strs) = match self.verdefs {
            Some(ref verdefs) => verdefs,
            None => {
                return Ok(None);
            }
        };

        let ver_ndx = self.version_ids.get(sym_idx)?;
        let iter = *verdefs;
        let mut vit = iter; loop { let (vd, vda_iter) = match vit.next() { Some(v) => v, None => break, };
            if vd.vd_ndx != ver_ndx.index() {
                continue;
            }

            let flags = vd.vd_flags;
            let hash = vd.vd_hash;
            let hidden = ver_ndx.is_hidden();
            return Ok(Some(SymbolDefinition {
                hash,
                flags,
                names: SymbolNamesIterator {
                    vda_iter,
                    strtab: verdef_strs,
                },
                hidden,
            }));
        }

        // Maybe we should treat this as a ParseError instead of returning an
        // empty Option? This can only happen if .gnu.versions[N] contains an
        // index that doesn't exist, which is likely a file corruption or
        // programmer error (i.e asking for a definition for an undefined symbol)
        Ok(None)
    }
}

////////////////////////////////////////////////////////////////////
//                                                 _              //
//       __ _ _ __  _   _      __   _____ _ __ ___(_) ___  _ __   //
//      / _` | '_ \| | | |     \ \ / / _ \ '__/ __| |/ _ \| '_ \  //
//  _  | (_| | | | | |_| |  _   \ V /  __/ |  \__ \ | (_) | | | | //
// (_)  \__, |_| |_|\__,_| (_)   \_/ \___|_|  |___/_|\___/|_| |_| //
//      |___/                                                     //
////////////////////////////////////////////////////////////////////

pub type VersionIndexTable<'data, E> = ParsingTable<'data, E, VersionIndex>;

/// The special GNU extension section .gnu.version has a section type of SHT_GNU_VERSYM.
/// This section shall have the same number of entries as the Dynamic Symbol Table in
/// the .dynsym section. The .gnu.version section shall contain an array of
/// elements of type Elfxx_Half (both of which are 16-bit unsigned integers).
///
/// The .gnu.version section and VersionIndex values act as a lookup table for specifying
/// the version defined for or required by the corresponding symbol in the Dynamic Symbol Table.
///
/// For example, the symbol at index N in the .dynsym Symbol Table will have a VersionIndex
/// value located in the versym table at .gnu.version\[N\] which identifies
/// structures in the .gnu.version_d and .gnu.version_r sections. These values
/// are located in identifiers provided by the the vna_other member of the VerNeedAux
/// structure or the vd_ndx member of the VerDef structure.
#[derive(Debug, PartialEq, Eq)]
pub struct VersionIndex(pub u16);

impl VersionIndex {
    pub fn index(&self) -> (r: u16) ensures r == self.0 & 0x7fff {
        self.0 & vabi::VER_NDX_VERSION
    }

    pub fn is_local(&self) -> bool {
        self.index() == vabi::VER_NDX_LOCAL
    }

    pub fn is_global(&self) -> bool {
        self.index() == vabi::VER_NDX_GLOBAL
    }

    pub fn is_hidden(&self) -> (r: bool) ensures r == (self.0 & 0x8000 != 0) {
        (self.0 & vabi::VER_NDX_HIDDEN) != 0
    }
}

impl ParseAt for VersionIndex {
    open spec fn spec_size(class: Class) -> nat { 2 }
    proof fn lemma_size_pos(class: Class) {}
    open spec fn spec_accepts(little: bool, class: Class, w: Seq<u8>, b: int) -> bool { true }
    open spec fn spec_decode(little: bool, class: Class, w: Seq<u8>, b: int) -> Self { VersionIndex(fld(little, w, b, 2) as u16) }

    fn parse_at<E: EndianParse>(
        endian: E,
        _class: Class,
        offset: &mut usize,
        data: &[u8],
    ) -> Result<Self, ParseError> {
        Ok(VersionIndex(endian.parse_u16_at(offset, data)?))
    }

    #[inline]
    fn size_for(_class: Class) -> usize {
        core::mem::size_of::<u16>()
    }
}

///////////////////////////////////////////////////////////////////////////////
//                                                 _                      _  //
//       __ _ _ __  _   _      __   _____ _ __ ___(_) ___  _ __        __| | //
//      / _` | '_ \| | | |     \ \ / / _ \ '__/ __| |/ _ \| '_ \      / _` | //
//  _  | (_| | | | | |_| |  _   \ V /  __/ |  \__ \ | (_) | | | |    | (_| | //
// (_)  \__, |_| |_|\__,_| (_)   \_/ \___|_|  |___/_|\___/|_| |_|_____\__,_| //
//      |___/                                                   |_____|      //
///////////////////////////////////////////////////////////////////////////////

/// The special GNU extension section .gnu.version_d has a section type of SHT_GNU_VERDEF
/// This section shall contain symbol version definitions. The number of entries
/// in this section shall be contained in the DT_VERDEFNUM entry of the Dynamic
/// Section .dynamic, and also the sh_info member of the section header.
/// The sh_link member of the section header shall point to the section that
/// contains the strings referenced by this section.
///
/// The .gnu.version_d section shall contain an array of VerDef structures
/// optionally followed by an array of VerDefAux structures.
#[derive(Debug, PartialEq, Eq)]
pub struct VerDef {
    /// Version information flag bitmask.
    pub vd_flags: u16,
    /// VersionIndex value referencing the SHT_GNU_VERSYM section.
    pub vd_ndx: u16,
    /// Number of associated verdaux array entries.
    pub vd_cnt: u16,
    /// Version name hash value (ELF hash function).
    pub vd_hash: u32,
    /// Offset in bytes to a corresponding entry in an array of VerDefAux structures.
    vd_aux: u32,
    /// Offset to the next VerDef entry, in bytes.
    vd_next: u32,
}

impl ParseAt for VerDef {
    open spec fn spec_size(class: Class) -> nat { 20 }
    proof fn lemma_size_pos(class: Class) {}
    open spec fn spec_accepts(little: bool, class: Class, w: Seq<u8>, b: int) -> bool { fld(little, w, b, 2) == 1 }
    closed spec fn spec_decode(little: bool, class: Class, w: Seq<u8>, b: int) -> Self { VerDef { vd_flags: fld(little, w, b + 2, 2) as u16, vd_ndx: fld(little, w, b + 4, 2) as u16, vd_cnt: fld(little, w, b + 6, 2) as u16, vd_hash: fld(little, w, b + 8, 4) as u32, vd_aux: fld(little, w, b + 12, 4) as u32, vd_next: fld(little, w, b + 16, 4) as u32 } }

    fn parse_at<E: EndianParse>(
        endian: E,
        _class: Class,
        offset: &mut usize,
        data: &[u8],
    ) -> Result<Self, ParseError> {
        let vd_version = endian.parse_u16_at(offset, data)?;
        if vd_version != vabi::VER_DEF_CURRENT {
            return Err(ParseError::UnsupportedVersion((
                vd_version as u64,
                vabi::VER_DEF_CURRENT as u64,
            )));
        }

        Ok(VerDef {
            vd_flags: endian.parse_u16_at(offset, data)?,
            vd_ndx: endian.parse_u16_at(offset, data)?,
            vd_cnt: endian.parse_u16_at(offset, data)?,
            vd_hash: endian.parse_u32_at(offset, data)?,
            vd_aux: endian.parse_u32_at(offset, data)?,
            vd_next: endian.parse_u32_at(offset, data)?,
        })
    }

    #[inline]
    fn size_for(_class: Class) -> usize {
        ELFVERDEFSIZE
    }
}

const ELFVERDEFSIZE: usize = 20;

#[derive(Debug, Clone, Copy)]
pub struct VerDefIterator<'data, E: EndianParse> {
    endian: E,
    class: Class,
    /// The number of entries in this iterator is given by the .dynamic DT_VERDEFNUM entry
    /// and also in the .gnu.version_d section header's sh_info field.
    count: u64,
    data: &'data [u8],
    offset: usize,
}

impl<'data, E: EndianParse> VerDefIterator<'data, E> {
    pub fn new(
        endian: E,
        class: Class,
        count: u64,
        starting_offset: usize,
        data: &'data [u8],
    ) -> Self {
        VerDefIterator {
            endian,
            class,
            count,
            data,
            offset: starting_offset,
        }
    }
}

impl<'data, E: EndianParse> vstd::std_specs::iter::IteratorSpecImpl for VerDefIterator<'data, E> {
    open spec fn obeys_prophetic_iter_laws(&self) -> bool { false }
    uninterp spec fn remaining(&self) -> Seq<(VerDef, VerDefAuxIterator<'data, E>)>;
    uninterp spec fn will_return_none(&self) -> bool;
    uninterp spec fn decrease(&self) -> Option<nat>;
    uninterp spec fn peek(&self, i: int) -> Option<(VerDef, VerDefAuxIterator<'data, E>)>;
}
impl<'data, E: EndianParse> Iterator for VerDefIterator<'data, E> {
    type Item = (VerDef, VerDefAuxIterator<'data, E>);
    fn next(&mut self) -> Option<Self::Item> {
        if self.data.is_empty() || self.count == 0 {
            return None;
        }

        let mut start = self.offset;
        let vd = VerDef::parse_at(self.endian, self.class, &mut start, self.data).ok()?;
        let vda_iter = VerDefAuxIterator::new(
            self.endian,
            self.class,
            vd.vd_cnt,
            self.offset + vd.vd_aux as usize,
            self.data,
        );

        // If offset overflows, silently end iteration
        match self.offset.checked_add(vd.vd_next as usize) {
            Some(new_off) => self.offset = new_off,
            None => self.count = 0,
        }
        self.count -= 1;

        // Silently end iteration early if the next link stops pointing somewhere new
        // TODO: Make this an error condition by allowing the iterator to yield a ParseError
        if self.count > 0 && vd.vd_next == 0 {
            self.count = 0
        }
        Some((vd, vda_iter))
    }
}

/// Version Definition Auxiliary Entries from the .gnu.version_d section
#[derive(Debug, PartialEq, Eq)]
pub struct VerDefAux {
    /// Offset to the version or dependency name string in the linked string table, in bytes.
    pub vda_name: u32,
    /// Offset to the next VerDefAux entry, in bytes.
    vda_next: u32,
}

impl ParseAt for VerDefAux {
    open spec fn spec_size(class: Class) -> nat { 8 }
    proof fn lemma_size_pos(class: Class) {}
    open spec fn spec_accepts(little: bool, class: Class, w: Seq<u8>, b: int) -> bool { true }
    closed spec fn spec_decode(little: bool, class: Class, w: Seq<u8>, b: int) -> Self { VerDefAux { vda_name: fld(little, w, b, 4) as u32, vda_next: fld(little, w, b + 4, 4) as u32 } }

    fn parse_at<E: EndianParse>(
        endian: E,
        _class: Class,
        offset: &mut usize,
        data: &[u8],
    ) -> Result<Self, ParseError> {
        Ok(VerDefAux {
            vda_name: endian.parse_u32_at(offset, data)?,
            vda_next: endian.parse_u32_at(offset, data)?,
        })
    }

    #[inline]
    fn size_for(_class: Class) -> usize {
        8
    }
}

#[derive(Debug)]
pub struct VerDefAuxIterator<'data, E: EndianParse> {
    endian: E,
    class: Class,
    count: u16,
    data: &'data [u8],
    offset: usize,
}

impl<'data, E: EndianParse> VerDefAuxIterator<'data, E> {
    pub fn new(
        endian: E,
        class: Class,
        count: u16,
        starting_offset: usize,
        data: &'data [u8],
    ) -> Self {
        VerDefAuxIterator {
            endian,
            class,
            count,
            data,
            offset: starting_offset,
        }
    }
}

impl<E: EndianParse> vstd::std_specs::iter::IteratorSpecImpl for VerDefAuxIterator<'_, E> {
    open spec fn obeys_prophetic_iter_laws(&self) -> bool { false }
    uninterp spec fn remaining(&self) -> Seq<VerDefAux>;
    uninterp spec fn will_return_none(&self) -> bool;
    uninterp spec fn decrease(&self) -> Option<nat>;
    uninterp spec fn peek(&self, i: int) -> Option<VerDefAux>;
}
impl<E: EndianParse> Iterator for VerDefAuxIterator<'_, E> {
    type Item = VerDefAux;
    fn next(&mut self) -> Option<Self::Item> {
        if self.data.is_empty() || self.count == 0 {
            return None;
        }

        // N.B. This offset handling is maybe unnecessary, but faithful to the
        // spec. As far as I've observed, VerDefAux entries for a VerDef are all
        // encoded sequentially after the VerDef, so we could likely just
        // use the normal pattern here and pass in &mut self.offset here.
        //
        // The spec claims that "The section shall contain an array of
        // Elfxx_Verdef structures, optionally followed by an array of
        // Elfxx_Verdaux structures." This reads a bit ambiguously
        // (is there one big array of Verdefs followed by one big array of
        // Verdauxs?). If so, the vd_next and vda_next links seem unnecessary
        // given the vd_cnt field. In practice, it appears that all the VerDefAux
        // fields for a given VerDef are sequentially following the VerDef, meaning
        // they're contiguous, but intersersed. The _next fields could theoretically
        // give non-contiguous linked-list-like configurations, though (but only linking
        // forward, not backward, since the link is a u32).
        //
        // The vd_next and vda_next fields are also not "pointers" i.e. offsets from
        // the start of the section, but rather "increments" in telling how far to
        // advance from where you just read the containing struct for where you should
        // read the next. Given the sequentially-following nature described, these vd_next
        // and vda_next fields end up being 0x14 and 0x8 (the size of the VerDef and
        // VerDefAux structs).
        //
        // So observationally, we could likely get away with using self.offset and count here
        // and ignoring the vda_next field, but that'd break things if they weren't contiguous.
        let mut start = self.offset;
        let vda = VerDefAux::parse_at(self.endian, self.class, &mut start, self.data).ok()?;

        // If offset overflows, silently end iteration
        match self.offset.checked_add(vda.vda_next as usize) {
            Some(new_off) => self.offset = new_off,
            None => self.count = 0,
        }
        self.count -= 1;

        // Silently end iteration early if the next link stops pointing somewhere new
        // TODO: Make this an error condition by allowing the iterator to yield a ParseError
        if self.count > 0 && vda.vda_next == 0 {
            self.count = 0
        }
        Some(vda)
    }
}

///////////////////////////////////////////////////////////////////////////////
//                                                 _                         //
//       __ _ _ __  _   _      __   _____ _ __ ___(_) ___  _ __        _ __  //
//      / _` | '_ \| | | |     \ \ / / _ \ '__/ __| |/ _ \| '_ \      | '__| //
//  _  | (_| | | | | |_| |  _   \ V /  __/ |  \__ \ | (_) | | | |     | |    //
// (_)  \__, |_| |_|\__,_| (_)   \_/ \___|_|  |___/_|\___/|_| |_|_____|_|    //
//      |___/                                                   |_____|      //
///////////////////////////////////////////////////////////////////////////////

/// The GNU extension section .gnu.version_r has a section type of SHT_GNU_VERNEED.
/// This section contains required symbol version definitions. The number of
/// entries in this section shall be contained in the DT_VERNEEDNUM entry of the
/// Dynamic Section .dynamic and also the sh_info member of the section header.
/// The sh_link member of the section header shall point to the referenced
/// string table section.
///
/// The section shall contain an array of VerNeed structures optionally
/// followed by an array of VerNeedAux structures.
#[derive(Debug, PartialEq, Eq)]
pub struct VerNeed {
    /// Number of associated verneed array entries.
    pub vn_cnt: u16,
    /// Offset to the file name string in the linked string table, in bytes.
    pub vn_file: u32,
    /// Offset to a corresponding entry in the VerNeedAux array, in bytes.
    vn_aux: u32,
    /// Offset to the next VerNeed entry, in bytes.
    vn_next: u32,
}

impl VerNeed {
    pub closed spec fn s_aux(&self) -> u32 { self.vn_aux }
    pub closed spec fn s_cnt(&self) -> u16 { self.vn_cnt }
    pub closed spec fn s_file(&self) -> u32 { self.vn_file }
    pub closed spec fn s_next(&self) -> u32 { self.vn_next }
}
impl ParseAt for VerNeed {
    open spec fn spec_size(class: Class) -> nat { 16 }
    proof fn lemma_size_pos(class: Class) {}
    open spec fn spec_accepts(little: bool, class: Class, w: Seq<u8>, b: int) -> bool { fld(little, w, b, 2) == 1 }
    closed spec fn spec_decode(little: bool, class: Class, w: Seq<u8>, b: int) -> Self { VerNeed { vn_cnt: fld(little, w, b + 2, 2) as u16, vn_file: fld(little, w, b + 4, 4) as u32, vn_aux: fld(little, w, b + 8, 4) as u32, vn_next: fld(little, w, b + 12, 4) as u32 } }

    fn parse_at<E: EndianParse>(
        endian: E,
        _class: Class,
        offset: &mut usize,
        data: &[u8],
    ) -> Result<Self, ParseError> {
        let vd_version = endian.parse_u16_at(offset, data)?;
        if vd_version != vabi::VER_NEED_CURRENT {
            return Err(ParseError::UnsupportedVersion((
                vd_version as u64,
                vabi::VER_DEF_CURRENT as u64,
            )));
        }
        Ok(VerNeed {
            vn_cnt: endian.parse_u16_at(offset, data)?,
            vn_file: endian.parse_u32_at(offset, data)?,
            vn_aux: endian.parse_u32_at(offset, data)?,
            vn_next: endian.parse_u32_at(offset, data)?,
        })
    }

    #[inline]
    fn size_for(_class: Class) -> usize {
        ELFVERNEEDSIZE
    }
}

const ELFVERNEEDSIZE: usize = 16;


pub open spec fn step_count(c: int, next: u32) -> int { if c - 1 > 0 && next == 0 { 0 } else { c - 1 } }
pub open spec fn vna_at(l: bool, cls: Class, d: Seq<u8>, off: int) -> VerNeedAux { VerNeedAux::spec_decode(l, cls, d, off) }
pub open spec fn vn_at(l: bool, cls: Class, d: Seq<u8>, off: int) -> VerNeed { VerNeed::spec_decode(l, cls, d, off) }
pub open spec fn aux_ok(d: Seq<u8>, off: int, cnt: int) -> bool { d.len() > 0 && cnt > 0 && 0 <= off && off + 16 <= d.len() }
pub open spec fn need_ok(l: bool, cls: Class, d: Seq<u8>, off: int, cnt: int) -> bool { d.len() > 0 && cnt > 0 && 0 <= off && off + 16 <= d.len() && VerNeed::spec_accepts(l, cls, d, off) }
/// offset of the first auxiliary record, following vna_next links, whose vna_other == idx
pub open spec fn aux_walk(l: bool, cls: Class, d: Seq<u8>, off: int, cnt: int, idx: u16) -> Option<int>
    decreases cnt
{
    if !aux_ok(d, off, cnt) { None } else {
        let a = vna_at(l, cls, d, off);
        if a.s_other() == idx { Some(off) } else { aux_walk(l, cls, d, off + a.s_next(), step_count(cnt, a.s_next()), idx) }
    }
}
pub open spec fn need_walk(l: bool, cls: Class, d: Seq<u8>, off: int, cnt: int, idx: u16) -> Option<(int, int)>
    decreases cnt
{
    if !need_ok(l, cls, d, off, cnt) { None } else {
        let vn = vn_at(l, cls, d, off);
        match aux_walk(l, cls, d, off + vn.s_aux(), vn.s_cnt() as int, idx) {
            Some(ao) => Some((off, ao)),
            None => need_walk(l, cls, d, off + vn.s_next(), step_count(cnt, vn.s_next()), idx),
        }
    }
}
#[derive(Debug, Copy, Clone)]
pub struct VerNeedIterator<'data, E: EndianParse> {
    endian: E,
    class: Class,
    /// The number of entries in this iterator is given by the .dynamic DT_VERNEEDNUM entry
    /// and also in the .gnu.version_r section header's sh_info field.
    count: u64,
    data: &'data [u8],
    offset: usize,
}

impl<'data, E: EndianParse> VerNeedIterator<'data, E> {
    pub closed spec fn s_data(&self) -> &'data [u8] { self.data }
    pub closed spec fn s_off(&self) -> usize { self.offset }
    pub closed spec fn s_class(&self) -> Class { self.class }
    pub closed spec fn s_endian(&self) -> E { self.endian }
    pub closed spec fn s_count(&self) -> u64 { self.count }
    pub fn new(
        endian: E,
        class: Class,
        count: u64,
        starting_offset: usize,
        data: &'data [u8],
    ) -> Self {
        VerNeedIterator {
            endian,
            class,
            count,
            data,
            offset: starting_offset,
        }
    }
}

impl<'data, E: EndianParse> vstd::std_specs::iter::IteratorSpecImpl for VerNeedIterator<'data, E> {
    open spec fn obeys_prophetic_iter_laws(&self) -> bool { false }
    uninterp spec fn remaining(&self) -> Seq<(VerNeed, VerNeedAuxIterator<'data, E>)>;
    uninterp spec fn will_return_none(&self) -> bool;
    uninterp spec fn decrease(&self) -> Option<nat>;
    uninterp spec fn peek(&self, i: int) -> Option<(VerNeed, VerNeedAuxIterator<'data, E>)>;
}
impl<'data, E: EndianParse> Iterator for VerNeedIterator<'data, E> {
    type Item = (VerNeed, VerNeedAuxIterator<'data, E>);
    fn next(&mut self) -> (r: Option<Self::Item>)
        ensures
            final(self).s_data() == old(self).s_data(), final(self).s_class() == old(self).s_class(), final(self).s_endian() == old(self).s_endian(),
            r is Some <==> need_ok(old(self).s_endian().spec_is_little(), old(self).s_class(), old(self).s_data()@, old(self).s_off() as int, old(self).s_count() as int),
            r is None ==> final(self).s_off() == old(self).s_off() && final(self).s_count() == old(self).s_count(),
            r is Some ==> ({ let l = old(self).s_endian().spec_is_little(); let d = old(self).s_data()@; let off = old(self).s_off() as int;
                let vn = vn_at(l, old(self).s_class(), d, off);
                r->Some_0.0 == vn
                && r->Some_0.1.s_data() == old(self).s_data() && r->Some_0.1.s_class() == old(self).s_class() && r->Some_0.1.s_endian() == old(self).s_endian()
                && r->Some_0.1.s_off() == off + vn.s_aux() && r->Some_0.1.s_count() == vn.s_cnt()
                && final(self).s_off() == off + vn.s_next()
                && final(self).s_count() == step_count(old(self).s_count() as int, vn.s_next()) }),
    {
        if self.data.is_empty() || self.count == 0 {
            return None;
        }

        let mut start = self.offset;
        let vn = VerNeed::parse_at(self.endian, self.class, &mut start, self.data).ok()?;
        let vna_iter = VerNeedAuxIterator::new(
            self.endian,
            self.class,
            vn.vn_cnt,
            self.offset + vn.vn_aux as usize,
            self.data,
        );

        // If offset overflows, silently end iteration
        match self.offset.checked_add(vn.vn_next as usize) {
            Some(new_off) => self.offset = new_off,
            None => self.count = 0,
        }
        self.count -= 1;

        // Silently end iteration early if the next link stops pointing somewhere new
        // TODO: Make this an error condition by allowing the iterator to yield a ParseError
        if self.count > 0 && vn.vn_next == 0 {
            self.count = 0
        }
        Some((vn, vna_iter))
    }
}

/// Version Need Auxiliary Entries from the .gnu.version_r section
#[derive(Debug, PartialEq, Eq)]
pub struct VerNeedAux {
    /// Dependency name hash value (ELF hash function).
    pub vna_hash: u32,
    /// Dependency information flag bitmask.
    pub vna_flags: u16,
    /// VersionIndex value used in the .gnu.version symbol version array.
    pub vna_other: u16,
    /// Offset to the dependency name string in the linked string table, in bytes.
    pub vna_name: u32,
    /// Offset to the next vernaux entry, in bytes.
    vna_next: u32,
}

impl VerNeedAux {
    pub closed spec fn s_next(&self) -> u32 { self.vna_next }
    pub closed spec fn s_other(&self) -> u16 { self.vna_other }
    pub closed spec fn s_name(&self) -> u32 { self.vna_name }
    pub closed spec fn s_hash(&self) -> u32 { self.vna_hash }
    pub closed spec fn s_flags(&self) -> u16 { self.vna_flags }
}
impl ParseAt for VerNeedAux {
    open spec fn spec_size(class: Class) -> nat { 16 }
    proof fn lemma_size_pos(class: Class) {}
    open spec fn spec_accepts(little: bool, class: Class, w: Seq<u8>, b: int) -> bool { true }
    closed spec fn spec_decode(little: bool, class: Class, w: Seq<u8>, b: int) -> Self { VerNeedAux { vna_hash: fld(little, w, b, 4) as u32, vna_flags: fld(little, w, b + 4, 2) as u16, vna_other: fld(little, w, b + 6, 2) as u16, vna_name: fld(little, w, b + 8, 4) as u32, vna_next: fld(little, w, b + 12, 4) as u32 } }

    fn parse_at<E: EndianParse>(
        endian: E,
        _class: Class,
        offset: &mut usize,
        data: &[u8],
    ) -> Result<Self, ParseError> {
        Ok(VerNeedAux {
            vna_hash: endian.parse_u32_at(offset, data)?,
            vna_flags: endian.parse_u16_at(offset, data)?,
            vna_other: endian.parse_u16_at(offset, data)?,
            vna_name: endian.parse_u32_at(offset, data)?,
            vna_next: endian.parse_u32_at(offset, data)?,
        })
    }

    #[inline]
    fn size_for(_class: Class) -> usize {
        16
    }
}

#[derive(Debug)]
pub struct VerNeedAuxIterator<'data, E: EndianParse> {
    endian: E,
    class: Class,
    count: u16,
    data: &'data [u8],
    offset: usize,
}

impl<'data, E: EndianParse> VerNeedAuxIterator<'data, E> {
    pub closed spec fn s_data(&self) -> &'data [u8] { self.data }
    pub closed spec fn s_off(&self) -> usize { self.offset }
    pub closed spec fn s_class(&self) -> Class { self.class }
    pub closed spec fn s_endian(&self) -> E { self.endian }
    pub closed spec fn s_count(&self) -> u16 { self.count }
    pub fn new(
        endian: E,
        class: Class,
        count: u16,
        starting_offset: usize,
        data: &'data [u8],
    ) -> (r: Self)
        ensures r.s_data() == data, r.s_off() == starting_offset, r.s_count() == count, r.s_class() == class, r.s_endian() == endian
    {
        VerNeedAuxIterator {
            endian,
            class,
            count,
            data,
            offset: starting_offset,
        }
    }
}

impl<E: EndianParse> vstd::std_specs::iter::IteratorSpecImpl for VerNeedAuxIterator<'_, E> {
    open spec fn obeys_prophetic_iter_laws(&self) -> bool { false }
    uninterp spec fn remaining(&self) -> Seq<VerNeedAux>;
    uninterp spec fn will_return_none(&self) -> bool;
    uninterp spec fn decrease(&self) -> Option<nat>;
    uninterp spec fn peek(&self, i: int) -> Option<VerNeedAux>;
}
impl<E: EndianParse> Iterator for VerNeedAuxIterator<'_, E> {
    type Item = VerNeedAux;
    fn next(&mut self) -> (r: Option<Self::Item>)
        ensures
            final(self).s_data() == old(self).s_data(), final(self).s_class() == old(self).s_class(), final(self).s_endian() == old(self).s_endian(),
            r is Some <==> aux_ok(old(self).s_data()@, old(self).s_off() as int, old(self).s_count() as int),
            r is None ==> final(self).s_off() == old(self).s_off() && final(self).s_count() == old(self).s_count(),
            r is Some ==> ({ let a = vna_at(old(self).s_endian().spec_is_little(), old(self).s_class(), old(self).s_data()@, old(self).s_off() as int);
                r->Some_0 == a && final(self).s_off() == old(self).s_off() + a.s_next()
                && final(self).s_count() == step_count(old(self).s_count() as int, a.s_next()) }),
    {
        if self.data.is_empty() || self.count == 0 {
            return None;
        }

        let mut start = self.offset;
        let vna = VerNeedAux::parse_at(self.endian, self.class, &mut start, self.data).ok()?;

        // If offset overflows, silently end iteration
        match self.offset.checked_add(vna.vna_next as usize) {
            Some(new_off) => self.offset = new_off,
            None => self.count = 0,
        }
        self.count -= 1;

        // Silently end iteration early if the next link stops pointing somewhere new
        // TODO: Make this an error condition by allowing the iterator to yield a ParseError
        if self.count > 0 && vna.vna_next == 0 {
            self.count = 0
        }
        Some(vna)
    }
}
}
fn main(){}
