use elf::endian::LittleEndian;
use elf::file::Class;
use elf::gnu_symver::VerDefIterator;
fn main() {
    // two verdef records; second has vd_next = 0xFFFFFFFF
    let mut d = vec![0u8; 40];
    d[0] = 1; d[16] = 20;            // rec0: version 1, vd_next = 20
    d[20] = 1; d[36] = 0xff; d[37] = 0xff; d[38] = 0xff; d[39] = 0xff; // rec1: vd_next = u32::MAX
    let it = VerDefIterator::new(LittleEndian, Class::ELF32, 3, 0, &d);
    let n = it.count();
    println!("usize bits = {}, items = {}", usize::BITS, n);
}
