#![feature(allocator_api)]
use vstd::prelude::*;
use core::ops::Range;
use std::collections::HashMap;
use std::io::{Read, Seek, SeekFrom};
verus! {
#[verifier::external_type_specification]
#[verifier::external_body]
pub struct ExIoError(std::io::Error);
#[verifier::external_type_specification]
pub struct ExSeekFrom(std::io::SeekFrom);

pub uninterp spec fn stream_contents<R: ?Sized>(r: &R) -> Seq<u8>;
pub uninterp spec fn stream_pos<R: ?Sized>(r: &R) -> nat;
pub uninterp spec fn io_log<R: ?Sized>(r: &R) -> Seq<(nat, nat)>;
pub uninterp spec fn healthy<R: ?Sized>(r: &R) -> bool;

#[verifier::external_trait_specification]
pub trait ExRead {
    type ExternalTraitSpecificationFor: std::io::Read;
    fn read(&mut self, buf: &mut [u8]) -> (r: std::io::Result<usize>)
        ensures
            stream_contents(final(self)) == stream_contents(old(self)),
            final(buf)@.len() == old(buf)@.len(),
            r is Ok ==> r->Ok_0 <= old(buf)@.len() && stream_pos(old(self)) + r->Ok_0 <= stream_contents(old(self)).len()
                && final(buf)@.subrange(0, r->Ok_0 as int) == stream_contents(old(self)).subrange(stream_pos(old(self)) as int, (stream_pos(old(self)) + r->Ok_0) as int)
                && stream_pos(final(self)) == stream_pos(old(self)) + r->Ok_0;
    fn read_exact(&mut self, buf: &mut [u8]) -> (r: std::io::Result<()>)
        ensures
            io_log(final(self)) == io_log(old(self)).push((stream_pos(old(self)), old(buf)@.len() as nat)),
            healthy(old(self)) ==> healthy(final(self)),
            healthy(old(self)) && stream_pos(old(self)) + old(buf)@.len() <= stream_contents(old(self)).len() ==> r is Ok,
            stream_contents(final(self)) == stream_contents(old(self)),
            final(buf)@.len() == old(buf)@.len(),
            r is Ok ==> stream_pos(old(self)) + old(buf)@.len() <= stream_contents(old(self)).len()
                && final(buf)@ == stream_contents(old(self)).subrange(stream_pos(old(self)) as int, (stream_pos(old(self)) + old(buf)@.len()) as int)
                && stream_pos(final(self)) == stream_pos(old(self)) + old(buf)@.len();
}
#[verifier::external_trait_specification]
pub trait ExSeek {
    type ExternalTraitSpecificationFor: std::io::Seek;
    fn seek(&mut self, pos: SeekFrom) -> (r: std::io::Result<u64>)
        ensures
            io_log(final(self)) == io_log(old(self)),
            healthy(old(self)) ==> healthy(final(self)) && (pos is Start || pos is End ==> r is Ok),
            stream_contents(final(self)) == stream_contents(old(self)),
            r is Ok ==> match pos {
                SeekFrom::Start(n) => stream_pos(final(self)) == n && r->Ok_0 == n,
                SeekFrom::End(d) => stream_pos(final(self)) == stream_contents(old(self)).len() + d && r->Ok_0 == stream_contents(old(self)).len() + d,
                SeekFrom::Current(d) => stream_pos(final(self)) == stream_pos(old(self)) + d && r->Ok_0 == stream_pos(old(self)) + d,
            };
}

pub assume_specification<T, A: std::alloc::Allocator> [std::vec::Vec::<T, A>::into_boxed_slice] (v: std::vec::Vec<T, A>) -> (b: std::boxed::Box<[T], A>)
    ensures b@ == v@;

pub enum ParseError {
    BadOffset(u64),
    IOError(std::io::Error),
}
impl From<std::io::Error> for ParseError {
    #[verifier::external_body]
    fn from(err: std::io::Error) -> ParseError {
        ParseError::IOError(err)
    }
}
#[derive(Debug)]
struct CachingReader<R: Read + Seek> {
    reader: R,
    stream_len: u64,
    bufs: HashMap<(usize, usize), Box<[u8]>>,
}

pub mod ax { use vstd::prelude::*;
#[verifier::external_body]
pub broadcast proof fn axiom_tuple_key_model()
    ensures #[trigger] vstd::std_specs::hash::obeys_key_model::<(usize, usize)>() {}
}
broadcast use {ax::axiom_tuple_key_model, vstd::std_specs::hash::group_hash_axioms};

impl<R: Read + Seek> CachingReader<R> {
    pub closed spec fn contents(&self) -> Seq<u8> { stream_contents(&self.reader) }
    pub closed spec fn loaded(&self, s: usize, e: usize) -> bool { self.bufs@.contains_key((s, e)) }
    pub closed spec fn cached(&self, s: usize, e: usize) -> Seq<u8> { self.bufs@[(s, e)]@ }
    pub closed spec fn slen(&self) -> u64 { self.stream_len }
    pub closed spec fn log(&self) -> Seq<(nat, nat)> { io_log(&self.reader) }
    pub closed spec fn is_healthy(&self) -> bool { healthy(&self.reader) }
    pub closed spec fn wf(&self) -> bool {
        &&& self.stream_len == stream_contents(&self.reader).len()
        &&& forall|k: (usize, usize)| #[trigger] self.bufs@.contains_key(k) ==> k.0 <= k.1 && k.1 <= self.stream_len
              && self.bufs@[k]@ == stream_contents(&self.reader).subrange(k.0 as int, k.1 as int)
    }
    fn new(mut reader: R) -> (r: Result<Self, ParseError>)
        ensures r is Ok ==> r->Ok_0.wf() && r->Ok_0.contents() == stream_contents(&reader)
            && (forall|s: usize, e: usize| !r->Ok_0.loaded(s, e))
    {
        // Cache the size of the stream so that we can err (rather than OOM) on invalid
        // huge read requests.
        let stream_len = reader.seek(SeekFrom::End(0))?;
        Ok(CachingReader {
            reader,
            stream_len,
            bufs: HashMap::<(usize, usize), Box<[u8]>>::default(),
        })
    }

    fn read_bytes(&mut self, start: usize, end: usize) -> (r: Result<&[u8], ParseError>)
        requires old(self).wf(), start <= end
        ensures final(self).wf(), final(self).contents() == old(self).contents(),
            r is Ok ==> end <= old(self).contents().len() && r->Ok_0@ == old(self).contents().subrange(start as int, end as int),
            end > old(self).contents().len() ==> r is Err,
    {
        self.load_bytes(start..end)?;
        Ok(self.get_bytes(start..end))
    }

    fn get_bytes(&self, range: Range<usize>) -> (r: &[u8])
        requires self.wf(), self.loaded(range.start, range.end)
        ensures r@ == self.contents().subrange(range.start as int, range.end as int)
    {
        // It's a programmer error to call get_bytes without first calling load_bytes, so
        // we want to panic here.
        self.bufs
            .get(&(range.start, range.end))
            .expect("load_bytes must be called before get_bytes for every range")
    }

    fn load_bytes(&mut self, range: Range<usize>) -> (r: Result<(), ParseError>)
        requires old(self).wf(), range.start <= range.end
        ensures final(self).wf(), final(self).contents() == old(self).contents(),
            r is Ok ==> final(self).loaded(range.start, range.end),
            forall|s: usize, e: usize| old(self).loaded(s, e) ==> final(self).loaded(s, e),
            r is Err ==> (forall|s: usize, e: usize| final(self).loaded(s, e) == old(self).loaded(s, e)),
            range.end > old(self).contents().len() ==> r is Err,
            final(self).log() == old(self).log() || final(self).log() == old(self).log().push((range.start as nat, (range.end - range.start) as nat)),
            old(self).loaded(range.start, range.end) ==> final(self).log() == old(self).log(),
            old(self).is_healthy() ==> final(self).is_healthy() && (r is Ok <==> range.end <= old(self).contents().len()),
    {
        if self.bufs.contains_key(&(range.start, range.end)) {
            return Ok(());
        }

        // Verify that the read range doesn't go past the end of the stream (corrupted files)
        let end = range.end as u64;
        if end > self.stream_len {
            return Err(ParseError::BadOffset(end));
        }

        self.reader.seek(SeekFrom::Start(range.start as u64))?;
        assert(range.end - range.start <= self.stream_len); // C08.alloc_bounded (spliced obligation)
        let mut bytes = vec![0; range.len()].into_boxed_slice();
        self.reader.read_exact(&mut bytes)?;
        self.bufs.insert((range.start, range.end), bytes);
        Ok(())
    }

    fn clear_cache(&mut self) {
        self.bufs.clear()
    }
}
}
fn main(){}
