use vstd::prelude::*;
verus! {
// gABI reference (Figure 5-13), 32-bit arithmetic
pub open spec fn elf_hash_step(h: u32, c: u8) -> u32 {
    let h1 = add32((h << 4) as u32, c as u32);
    let g = h1 & 0xf0000000u32;
    let h2 = if g != 0 { h1 ^ (g >> 24) } else { h1 };
    h2 & !g
}
pub open spec fn add32(a: u32, b: u32) -> u32 { ((a as int + b as int) % 0x1_0000_0000) as u32 }
pub open spec fn mul32(a: u32, b: u32) -> u32 { ((a as int * b as int) % 0x1_0000_0000) as u32 }
pub open spec fn elf_hash_ref(s: Seq<u8>) -> u32 decreases s.len() {
    if s.len() == 0 { 0 } else { elf_hash_step(elf_hash_ref(s.drop_last()), s.last()) }
}
pub open spec fn low28(x: u32) -> u32 { x & 0x0fffffffu32 }

proof fn lemma_step(h: u32, x: u32, c: u8, x1: u32, x2: u32)
    requires h == low28(x), x1 == add32(mul32(x, 16), c as u32), x2 == x1 ^ ((x1 >> 24) & 0xf0)
    ensures elf_hash_step(h, c) == low28(x2)
{
    // mul32(x,16) == (x << 4) as u32 == (low28(x) << 4)
    assert(mul32(x, 16) == ((x & 0x0fffffffu32) << 4u32)) by {
        assert((x as int * 16) % 0x1_0000_0000 == ((x & 0x0fffffffu32) << 4u32) as int) by (bit_vector);
    }
    let t = x1;
    assert(t == add32((h << 4) as u32, c as u32));
    assert( ({ let g = t & 0xf0000000u32; let h2 = if g != 0 { t ^ (g >> 24) } else { t }; h2 & !g })
            == (t ^ ((t >> 24) & 0xf0)) & 0x0fffffffu32 ) by (bit_vector);
}

pub fn sysv_hash(name: &[u8]) -> (r: u32)
    ensures r == elf_hash_ref(name@)
{
    let mut hash = 0u32;
    proof { assert(0u32 & 0x0fffffffu32 == 0u32) by (bit_vector); assert(name@.take(0) =~= Seq::<u8>::empty()); }
    for byte in it: name
        invariant low28(hash) == elf_hash_ref(name@.take(it.index@ as int)),
    {
        let ghost h0 = hash;
        hash = hash.wrapping_mul(16).wrapping_add(*byte as u32);
        let ghost h1 = hash;
        hash ^= (hash >> 24) & 0xf0;
        proof {
            let i = it.index@ as int;
            assert(name@.take(i + 1).drop_last() =~= name@.take(i));
            assert(name@.take(i + 1).last() == *byte);
            lemma_step(low28(h0), h0, *byte, h1, hash);
        }
    }
    proof { assert(name@.take(name@.len() as int) =~= name@); }
    hash & 0xfffffff
}
}
fn main(){}
