use vstd::prelude::*;
use vstd::std_specs::iter::IteratorSpec;
use core::{marker::PhantomData, ops::Range};
verus! {
use core::mem::size_of;
#[verifier::external_type_specification]
#[verifier::external_body]
pub struct ExTryFromSliceError(core::array::TryFromSliceError);

#[verifier::external_type_specification]
#[verifier::external_body]
pub struct ExUtf8Error(core::str::Utf8Error);
pub enum ParseError {
    BadMagic([u8; 4]),
    UnsupportedElfClass(u8),
    UnsupportedElfEndianness(u8),
    UnsupportedVersion((u64, u64)),
    BadOffset(u64),
    StringTableMissingNul(u64),
    BadEntsize((u64, u64)),
    UnexpectedSectionType((u32, u32)),
    UnexpectedSegmentType((u32, u32)),
    UnexpectedAlignment(usize),
    SliceReadError((usize, usize)),
    IntegerOverflow,
    Utf8Error(core::str::Utf8Error),
    TryFromSliceError(core::array::TryFromSliceError),
    TryFromIntError(core::num::TryFromIntError),
}
impl From<core::num::TryFromIntError> for ParseError {
    #[verifier::external_body]
    fn from(err: core::num::TryFromIntError) -> Self {
        ParseError::TryFromIntError(err)
    }
}
impl vstd::std_specs::convert::FromSpecImpl<core::num::TryFromIntError> for ParseError {
    open spec fn obeys_from_spec() -> bool { true }
    open spec fn from_spec(v: core::num::TryFromIntError) -> Self { ParseError::TryFromIntError(v) }
}
impl From<core::array::TryFromSliceError> for ParseError {
    #[verifier::external_body]
    fn from(err: core::array::TryFromSliceError) -> Self {
        ParseError::TryFromSliceError(err)
    }
}
impl vstd::std_specs::convert::FromSpecImpl<core::array::TryFromSliceError> for ParseError {
    open spec fn obeys_from_spec() -> bool { true }
    open spec fn from_spec(v: core::array::TryFromSliceError) -> Self { ParseError::TryFromSliceError(v) }
}

// ---- spec of byte order
pub open spec fn le_val(s: Seq<u8>) -> nat decreases s.len() {
    if s.len() == 0 { 0 } else { s[0] as nat + 256 * le_val(s.drop_first()) }
}
pub open spec fn be_val(s: Seq<u8>) -> nat decreases s.len() {
    if s.len() == 0 { 0 } else { be_val(s.drop_last()) * 256 + s.last() as nat }
}
pub open spec fn uval(little: bool, s: Seq<u8>) -> nat { if little { le_val(s) } else { be_val(s) } }
// two's complement
pub open spec fn sval(little: bool, s: Seq<u8>) -> int {
    let u = uval(little, s) as int; let m = pow256(s.len()) as int;
    if 2*u >= m { u - m } else { u }
}
pub open spec fn pow256(n: nat) -> nat decreases n { if n == 0 { 1 } else { 256 * pow256((n-1) as nat) } }

#[verifier::external_body]
fn shim_u16_from_le_bytes(b: [u8; 2]) -> (r: u16) ensures r as nat == le_val(b@) { u16::from_le_bytes(b) }
#[verifier::external_body]
fn shim_u16_from_be_bytes(b: [u8; 2]) -> (r: u16) ensures r as nat == be_val(b@) { u16::from_be_bytes(b) }
#[verifier::external_body]
fn shim_i32_from_le_bytes(b: [u8; 4]) -> (r: i32) ensures r as int == sval(true, b@) { i32::from_le_bytes(b) }
#[verifier::external_body]
fn shim_i32_from_be_bytes(b: [u8; 4]) -> (r: i32) ensures r as int == sval(false, b@) { i32::from_be_bytes(b) }

#[verifier::external_body]
fn shim_u32_from_le_bytes(b: [u8; 4]) -> (r: u32) ensures r as nat == le_val(b@) { u32::from_le_bytes(b) }
#[verifier::external_body]
fn shim_u32_from_be_bytes(b: [u8; 4]) -> (r: u32) ensures r as nat == be_val(b@) { u32::from_be_bytes(b) }
#[verifier::external_body]
fn shim_u64_from_le_bytes(b: [u8; 8]) -> (r: u64) ensures r as nat == le_val(b@) { u64::from_le_bytes(b) }
#[verifier::external_body]
fn shim_u64_from_be_bytes(b: [u8; 8]) -> (r: u64) ensures r as nat == be_val(b@) { u64::from_be_bytes(b) }
#[verifier::external_body]
fn shim_u8_from_le_bytes(b: [u8; 1]) -> (r: u8) ensures r as nat == le_val(b@) { u8::from_le_bytes(b) }
#[verifier::external_body]
fn shim_u8_from_be_bytes(b: [u8; 1]) -> (r: u8) ensures r as nat == be_val(b@) { u8::from_be_bytes(b) }
pub assume_specification<'a, T: Copy, const N: usize>[ <[T; N] as TryFrom<&'a [T]>>::try_from ](s: &[T]) -> (r: Result<[T; N], core::array::TryFromSliceError>)
    ensures s@.len() == N ==> (r is Ok && r->Ok_0@ == s@),
            s@.len() != N ==> r is Err;

pub mod ax { use vstd::prelude::*;
#[verifier::external_body]
pub broadcast proof fn axiom_slice_len_bound(s: &[u8]) ensures #[trigger] s@.len() <= isize::MAX {}
}


pub proof fn lemma_index_in_table(i: nat, sz: nat, len: nat)
    requires sz > 0
    ensures i < len / sz <==> i * sz + sz <= len
{
    vstd::arithmetic::div_mod::lemma_fundamental_div_mod(len as int, sz as int);
    vstd::arithmetic::div_mod::lemma_mod_bound(len as int, sz as int);
    let q = len / sz;
    if i < q {
        assert((i + 1) * sz <= q * sz) by (nonlinear_arith) requires i + 1 <= q, sz > 0;
        assert((i + 1) * sz == i * sz + sz) by (nonlinear_arith);
        assert(q * sz == sz * q) by (nonlinear_arith);
    } else {
        assert(q * sz <= i * sz) by (nonlinear_arith) requires q <= i, sz > 0;
        assert(q * sz == sz * q) by (nonlinear_arith);
    }
}
pub open spec fn read_ok(off: usize, w: nat, data: &[u8]) -> bool { off + w <= data@.len() }
pub open spec fn window(off: usize, w: nat, data: &[u8]) -> Seq<u8> { data@.subrange(off as int, off + w) }

pub mod abi { pub const SHN_UNDEF: u16 = 0; }
pub assume_specification [u32::checked_shr] (x: u32, n: u32) -> (r: Option<u32>)
    ensures n < 32 ==> r == Some(x >> n), n >= 32 ==> r is None;
pub assume_specification<'a, T, P: FnMut(&'a T) -> bool> [<core::slice::Iter<'a, T> as Iterator>::position] (it: &mut core::slice::Iter<'a, T>, pred: P) -> (r: Option<usize>)
    where core::slice::Iter<'a, T>: Sized
    requires forall|i: int| 0 <= i < old(it).remaining().len() ==> call_requires(pred, (#[trigger] old(it).remaining()[i],)),
    ensures match r {
        Some(k) => k < old(it).remaining().len() && call_ensures(pred, (old(it).remaining()[k as int],), true)
            && forall|j: int| 0 <= j < k ==> call_ensures(pred, (#[trigger] old(it).remaining()[j],), false),
        None => forall|j: int| 0 <= j < old(it).remaining().len() ==> call_ensures(pred, (#[trigger] old(it).remaining()[j],), false),
    };

pub mod endian {
use vstd::prelude::*;
use vstd::std_specs::iter::IteratorSpec;
use core::{marker::PhantomData, ops::Range};
use core::mem::size_of;
use crate::*;
broadcast use crate::ax::axiom_slice_len_bound;
pub trait EndianParse: Clone + Copy + Default + PartialEq + Eq {
    spec fn spec_is_little(self) -> bool;

    fn parse_u16_at(self, offset: &mut usize, data: &[u8]) -> (r: Result<u16, ParseError>)
        ensures
            read_ok(*old(offset), 2, data) <==> r is Ok,
            r is Ok ==> *final(offset) == *old(offset) + 2 && r->Ok_0 as nat == uval(self.spec_is_little(), window(*old(offset), 2, data)),
            r is Err ==> *final(offset) == *old(offset),
    {
        let end = (*offset)
            .checked_add(2)
            .ok_or(ParseError::IntegerOverflow)?;

        let buf: [u8; 2] = data
            .get(*offset..end)
            .ok_or(ParseError::SliceReadError((*offset, end)))?
            .try_into()?;

        *offset = end;

        if self.is_little() {
            Ok(shim_u16_from_le_bytes(buf))
        } else {
            Ok(shim_u16_from_be_bytes(buf))
        }
    }
    fn parse_u32_at(self, offset: &mut usize, data: &[u8]) -> (r: Result<u32, ParseError>)
        ensures
            read_ok(*old(offset), 4, data) <==> r is Ok,
            r is Ok ==> *final(offset) == *old(offset) + 4 && r->Ok_0 as nat == uval(self.spec_is_little(), window(*old(offset), 4, data)),
            r is Err ==> *final(offset) == *old(offset),
    {
        let end = (*offset)
            .checked_add(4)
            .ok_or(ParseError::IntegerOverflow)?;

        let buf: [u8; 4] = data
            .get(*offset..end)
            .ok_or(ParseError::SliceReadError((*offset, end)))?
            .try_into()?;

        *offset = end;

        if self.is_little() {
            Ok(shim_u32_from_le_bytes(buf))
        } else {
            Ok(shim_u32_from_be_bytes(buf))
        }
    }
    fn parse_u64_at(self, offset: &mut usize, data: &[u8]) -> (r: Result<u64, ParseError>)
        ensures
            read_ok(*old(offset), 8, data) <==> r is Ok,
            r is Ok ==> *final(offset) == *old(offset) + 8 && r->Ok_0 as nat == uval(self.spec_is_little(), window(*old(offset), 8, data)),
            r is Err ==> *final(offset) == *old(offset),
    {
        let end = (*offset)
            .checked_add(8)
            .ok_or(ParseError::IntegerOverflow)?;

        let buf: [u8; 8] = data
            .get(*offset..end)
            .ok_or(ParseError::SliceReadError((*offset, end)))?
            .try_into()?;

        *offset = end;

        if self.is_little() {
            Ok(shim_u64_from_le_bytes(buf))
        } else {
            Ok(shim_u64_from_be_bytes(buf))
        }
    }
    fn parse_u8_at(self, offset: &mut usize, data: &[u8]) -> (r: Result<u8, ParseError>)
        ensures
            read_ok(*old(offset), 1, data) <==> r is Ok,
            r is Ok ==> *final(offset) == *old(offset) + 1 && r->Ok_0 as nat == uval(self.spec_is_little(), window(*old(offset), 1, data)),
            r is Err ==> *final(offset) == *old(offset),
    {
        let end = (*offset)
            .checked_add(1)
            .ok_or(ParseError::IntegerOverflow)?;

        let buf: [u8; 1] = data
            .get(*offset..end)
            .ok_or(ParseError::SliceReadError((*offset, end)))?
            .try_into()?;

        *offset = end;

        if self.is_little() {
            Ok(shim_u8_from_le_bytes(buf))
        } else {
            Ok(shim_u8_from_be_bytes(buf))
        }
    }
    fn parse_i32_at(self, offset: &mut usize, data: &[u8]) -> (r: Result<i32, ParseError>)
        ensures
            read_ok(*old(offset), 4, data) <==> r is Ok,
            r is Ok ==> *final(offset) == *old(offset) + 4 && r->Ok_0 as int == sval(self.spec_is_little(), window(*old(offset), 4, data)),
            r is Err ==> *final(offset) == *old(offset),
    {
        let end = (*offset)
            .checked_add(4)
            .ok_or(ParseError::IntegerOverflow)?;

        let buf: [u8; 4] = data
            .get(*offset..end)
            .ok_or(ParseError::SliceReadError((*offset, end)))?
            .try_into()?;

        *offset = end;

        if self.is_little() {
            Ok(shim_i32_from_le_bytes(buf))
        } else {
            Ok(shim_i32_from_be_bytes(buf))
        }
    }

    fn from_ei_data(ei_data: u8) -> Result<Self, ParseError>;

    fn is_little(self) -> (r: bool) ensures r == self.spec_is_little();

    #[inline(always)]
    fn is_big(self) -> bool {
        !self.is_little()
    }
}

}
pub mod parse {
use vstd::prelude::*;
use vstd::std_specs::iter::IteratorSpec;
use core::{marker::PhantomData, ops::Range};
use core::mem::size_of;
use crate::*;
use crate::endian::*;
broadcast use crate::ax::axiom_slice_len_bound;
#[derive(Debug, Copy, Clone, PartialEq, Eq, Structural)]
pub enum Class {
    ELF32,
    ELF64,
}
pub trait ParseAt: Sized {
    /// Parse this type by using the given endian-awareness and ELF class layout.
    /// This is generic on EndianParse in order to allow users to optimize for
    /// their expectations of data layout. See EndianParse for more details.
    spec fn spec_size(class: Class) -> nat;
    proof fn lemma_size_pos(class: Class) ensures Self::spec_size(class) > 0;
    spec fn spec_accepts(little: bool, class: Class, w: Seq<u8>, b: int) -> bool;
    spec fn spec_decode(little: bool, class: Class, w: Seq<u8>, b: int) -> Self;
    fn parse_at<E: EndianParse>(
        endian: E,
        class: Class,
        offset: &mut usize,
        data: &[u8],
    ) -> (r: Result<Self, ParseError>)
        ensures
            r is Ok <==> (read_ok(*old(offset), Self::spec_size(class), data) && Self::spec_accepts(endian.spec_is_little(), class, data@, *old(offset) as int)),
            r is Ok ==> *final(offset) == *old(offset) + Self::spec_size(class)
                 && r->Ok_0 == Self::spec_decode(endian.spec_is_little(), class, data@, *old(offset) as int),
            r is Err ==> *old(offset) <= *final(offset) <= *old(offset) + Self::spec_size(class),
    ;

    /// Returns the expected size of the type being parsed for the given ELF class
    fn size_for(class: Class) -> (r: usize) ensures r == Self::spec_size(class), r > 0;

    /// Checks whether the given entsize matches what we need to parse this type
    ///
    /// Returns a ParseError for bad/unexpected entsizes that don't match what this type parses.
    fn validate_entsize(class: Class, entsize: usize) -> Result<usize, ParseError> {
        let expected = Self::size_for(class);
        match entsize == expected {
            true => Ok(entsize),
            false => Err(ParseError::BadEntsize((entsize as u64, expected as u64))),
        }
    }
}/// Encapsulates the contents of an ELF Section Header
///
/// This is a Rust-native type that represents a Section Header that is bit-width-agnostic.
#[derive(Copy, Clone, Debug, PartialEq, Eq)]
pub struct SectionHeader {
    /// Section Name
    pub sh_name: u32,
    /// Section Type
    pub sh_type: u32,
    /// Section Flags
    pub sh_flags: u64,
    /// in-memory address where this section is loaded
    pub sh_addr: u64,
    /// Byte-offset into the file where this section starts
    pub sh_offset: u64,
    /// Section size in bytes
    pub sh_size: u64,
    /// Defined by section type
    pub sh_link: u32,
    /// Defined by section type
    pub sh_info: u32,
    /// address alignment
    pub sh_addralign: u64,
    /// size of an entry if section data is an array of entries
    pub sh_entsize: u64,
}

pub open spec fn fld(little: bool, w: Seq<u8>, off: int, n: int) -> nat { uval(little, w.subrange(off, off + n)) }
impl ParseAt for SectionHeader {
    open spec fn spec_size(class: Class) -> nat { match class { Class::ELF32 => 40, Class::ELF64 => 64 } }
    proof fn lemma_size_pos(class: Class) {}
    open spec fn spec_accepts(little: bool, class: Class, w: Seq<u8>, b: int) -> bool { true }
    open spec fn spec_decode(little: bool, class: Class, w: Seq<u8>, b: int) -> Self {
        match class {
            Class::ELF32 => SectionHeader {
                sh_name: fld(little, w, b + 0, 4) as u32, sh_type: fld(little, w, b + 4, 4) as u32, sh_flags: fld(little, w, b + 8, 4) as u64,
                sh_addr: fld(little, w, b + 12, 4) as u64, sh_offset: fld(little, w, b + 16, 4) as u64, sh_size: fld(little, w, b + 20, 4) as u64,
                sh_link: fld(little, w, b + 24, 4) as u32, sh_info: fld(little, w, b + 28, 4) as u32, sh_addralign: fld(little, w, b + 32, 4) as u64,
                sh_entsize: fld(little, w, b + 36, 4) as u64 },
            Class::ELF64 => SectionHeader {
                sh_name: fld(little, w, b + 0, 4) as u32, sh_type: fld(little, w, b + 4, 4) as u32, sh_flags: fld(little, w, b + 8, 8) as u64,
                sh_addr: fld(little, w, b + 16, 8) as u64, sh_offset: fld(little, w, b + 24, 8) as u64, sh_size: fld(little, w, b + 32, 8) as u64,
                sh_link: fld(little, w, b + 40, 4) as u32, sh_info: fld(little, w, b + 44, 4) as u32, sh_addralign: fld(little, w, b + 48, 8) as u64,
                sh_entsize: fld(little, w, b + 56, 8) as u64 },
        }
    }

    fn parse_at<E: EndianParse>(
        endian: E,
        class: Class,
        offset: &mut usize,
        data: &[u8],
    ) -> Result<Self, ParseError> {
        match class {
            Class::ELF32 => Ok(SectionHeader {
                sh_name: endian.parse_u32_at(offset, data)?,
                sh_type: endian.parse_u32_at(offset, data)?,
                sh_flags: endian.parse_u32_at(offset, data)? as u64,
                sh_addr: endian.parse_u32_at(offset, data)? as u64,
                sh_offset: endian.parse_u32_at(offset, data)? as u64,
                sh_size: endian.parse_u32_at(offset, data)? as u64,
                sh_link: endian.parse_u32_at(offset, data)?,
                sh_info: endian.parse_u32_at(offset, data)?,
                sh_addralign: endian.parse_u32_at(offset, data)? as u64,
                sh_entsize: endian.parse_u32_at(offset, data)? as u64,
            }),
            Class::ELF64 => Ok(SectionHeader {
                sh_name: endian.parse_u32_at(offset, data)?,
                sh_type: endian.parse_u32_at(offset, data)?,
                sh_flags: endian.parse_u64_at(offset, data)?,
                sh_addr: endian.parse_u64_at(offset, data)?,
                sh_offset: endian.parse_u64_at(offset, data)?,
                sh_size: endian.parse_u64_at(offset, data)?,
                sh_link: endian.parse_u32_at(offset, data)?,
                sh_info: endian.parse_u32_at(offset, data)?,
                sh_addralign: endian.parse_u64_at(offset, data)?,
                sh_entsize: endian.parse_u64_at(offset, data)?,
            }),
        }
    }

    #[inline]
    fn size_for(class: Class) -> usize {
        match class {
            Class::ELF32 => 40,
            Class::ELF64 => 64,
        }
    }
}

impl SectionHeader {
    /// Helper method which uses checked integer math to get a tuple of (start,end) for
    /// this SectionHeader's (sh_offset, sh_offset + sh_size)
    pub(crate) fn get_data_range(&self) -> Result<(usize, usize), ParseError> {
        let start: usize = self.sh_offset.try_into()?;
        let size: usize = self.sh_size.try_into()?;
        let end = start.checked_add(size).ok_or(ParseError::IntegerOverflow)?;
        Ok((start, end))
    }
}
/// Lazy-parsing iterator which wraps bytes and parses out a `P: ParseAt` on each `next()`
#[derive(Debug)]
pub struct ParsingIterator<'data, E: EndianParse, P: ParseAt> {
    endian: E,
    class: Class,
    data: &'data [u8],
    offset: usize,
    // This struct doesn't technically own a P, but it yields them
    // as it iterates
    pd: PhantomData<&'data P>,
}

impl<'data, E: EndianParse, P: ParseAt> ParsingIterator<'data, E, P> {
    pub closed spec fn sdata(&self) -> &'data [u8] { self.data }
    pub closed spec fn soffset(&self) -> usize { self.offset }
    pub closed spec fn sclass(&self) -> Class { self.class }
    pub closed spec fn sendian(&self) -> E { self.endian }

    pub fn new(endian: E, class: Class, data: &'data [u8]) -> Self {
        ParsingIterator {
            endian,
            class,
            data,
            offset: 0,
            pd: PhantomData,
        }
    }
}

impl<E: EndianParse, P: ParseAt> vstd::std_specs::iter::IteratorSpecImpl for ParsingIterator<'_, E, P> {
    open spec fn obeys_prophetic_iter_laws(&self) -> bool { false }
    uninterp spec fn remaining(&self) -> Seq<P>;
    uninterp spec fn will_return_none(&self) -> bool;
    uninterp spec fn decrease(&self) -> Option<nat>;
    uninterp spec fn peek(&self, i: int) -> Option<P>;
}
impl<E: EndianParse, P: ParseAt> Iterator for ParsingIterator<'_, E, P> {
    type Item = P;
    fn next(&mut self) -> (r: Option<Self::Item>)
        ensures
            final(self).sdata() == old(self).sdata(), final(self).sclass() == old(self).sclass(), final(self).sendian() == old(self).sendian(),
            r is Some <==> (old(self).sdata()@.len() > 0 && read_ok(old(self).soffset(), P::spec_size(old(self).sclass()), old(self).sdata())
                 && P::spec_accepts(old(self).sendian().spec_is_little(), old(self).sclass(), old(self).sdata()@, old(self).soffset() as int)),
            r is Some ==> final(self).soffset() == old(self).soffset() + P::spec_size(old(self).sclass())
                 && r->Some_0 == P::spec_decode(old(self).sendian().spec_is_little(), old(self).sclass(), old(self).sdata()@, old(self).soffset() as int),
            r is None ==> final(self).soffset() >= old(self).soffset(),
    {
        if self.data.is_empty() {
            return None;
        }

        Self::Item::parse_at(self.endian, self.class, &mut self.offset, self.data).ok()
    }
}

/// Lazy-parsing table which wraps bytes and parses out a `P: ParseAt` at a given index into
/// the table on each `get()`.
#[derive(Debug, Clone, Copy)]
pub struct ParsingTable<'data, E: EndianParse, P: ParseAt> {
    endian: E,
    class: Class,
    data: &'data [u8],
    // This struct doesn't technically own a P, but it yields them
    pd: PhantomData<&'data P>,
}

impl<'data, E: EndianParse, P: ParseAt> ParsingTable<'data, E, P> {
    pub closed spec fn sdata(&self) -> &'data [u8] { self.data }
    pub closed spec fn sclass(&self) -> Class { self.class }
    pub closed spec fn sendian(&self) -> E { self.endian }
    pub open spec fn slen(&self) -> nat { self.sdata()@.len() / P::spec_size(self.sclass()) }

    pub fn new(endian: E, class: Class, data: &'data [u8]) -> (r: Self)
        ensures r.sdata() == data, r.sclass() == class, r.sendian() == endian
    {
        ParsingTable {
            endian,
            class,
            data,
            pd: PhantomData,
        }
    }

    /// Get a lazy-parsing iterator for the table's bytes
    pub fn iter(&self) -> ParsingIterator<'data, E, P> {
        ParsingIterator::new(self.endian, self.class, self.data)
    }

    /// Returns the number of elements of type P in the table.
    pub fn len(&self) -> (r: usize) ensures r == self.slen() {
        self.data.len() / P::size_for(self.class)
    }

    /// Returns whether the table is empty (contains zero elements).
    pub fn is_empty(&self) -> (r: bool) ensures r == (self.slen() == 0) {
        self.len() == 0
    }

    /// Parse the element at `index` in the table.
    pub fn get(&self, index: usize) -> (r: Result<P, ParseError>)
        ensures
            r is Ok <==> (index < self.slen() && P::spec_accepts(self.sendian().spec_is_little(), self.sclass(), self.sdata()@, index * P::spec_size(self.sclass()))),
            r is Ok ==> r->Ok_0 == P::spec_decode(self.sendian().spec_is_little(), self.sclass(), self.sdata()@, index * P::spec_size(self.sclass())),
    {
        proof { P::lemma_size_pos(self.sclass()); lemma_index_in_table(index as nat, P::spec_size(self.sclass()), self.sdata()@.len()); }
        if self.data.is_empty() {
            return Err(ParseError::BadOffset(index as u64));
        }

        let entsize = P::size_for(self.class);
        let mut start = index
            .checked_mul(entsize)
            .ok_or(ParseError::IntegerOverflow)?;
        if start > self.data.len() {
            return Err(ParseError::BadOffset(index as u64));
        }

        P::parse_at(self.endian, self.class, &mut start, self.data)
    }
}

impl<'data, E: EndianParse, P: ParseAt> IntoIterator for ParsingTable<'data, E, P> {
    type IntoIter = ParsingIterator<'data, E, P>;
    type Item = P;

    fn into_iter(self) -> Self::IntoIter {
        ParsingIterator::new(self.endian, self.class, self.data)
    }
}

// Simple convenience extension trait to wrap get() with .ok_or(SliceReadError)
pub(crate) trait ReadBytesExt<'data> {
    fn get_bytes(self, range: Range<usize>) -> Result<&'data [u8], ParseError>;
}

impl<'data> ReadBytesExt<'data> for &'data [u8] {
    fn get_bytes(self, range: Range<usize>) -> Result<&'data [u8], ParseError> {
        let start = range.start;
        let end = range.end;
        self.get(range)
            .ok_or(ParseError::SliceReadError((start, end)))
    }
}
}
pub mod string_table {
use vstd::prelude::*;
use vstd::std_specs::iter::IteratorSpec;
use core::{marker::PhantomData, ops::Range};
use core::mem::size_of;
use crate::*;
use crate::endian::*;
use crate::parse::*;
broadcast use crate::ax::axiom_slice_len_bound;
#[derive(Debug, Default, Clone, Copy)]
pub struct StringTable<'data> {
    data: &'data [u8],
}

impl<'data> StringTable<'data> {
    pub fn new(data: &'data [u8]) -> Self {
        StringTable { data }
    }

    pub closed spec fn sdata(&self) -> &'data [u8] { self.data }
    pub fn get_raw(&self, offset: usize) -> (r: Result<&'data [u8], ParseError>)
        ensures
            r is Ok <==> (offset < self.sdata()@.len() && exists|k: int| offset <= k < self.sdata()@.len() && self.sdata()@[k] == 0),
            r is Ok ==> ({ let s = r->Ok_0@; let d = self.sdata()@;
                 offset + s.len() < d.len() && s == d.subrange(offset as int, offset + s.len()) && d[offset + s.len()] == 0
                 && forall|k: int| 0 <= k < s.len() ==> s[k] != 0 }),
    {
        if self.data.is_empty() {
            return Err(ParseError::BadOffset(offset as u64));
        };

        let start = self
            .data
            .get(offset..)
            .ok_or(ParseError::BadOffset(offset as u64))?;
        let mut vit = start.iter();
        let ghost rem0 = vit.remaining();
        proof {
            assert(rem0.len() == start@.len());
            assert(forall|i: int| 0 <= i < start@.len() ==> *rem0[i] == start@[i]);
            assert(start@ =~= self.data@.subrange(offset as int, self.data@.len() as int));
        }
        let pos = vit
            .position(|b: &u8| -> (ret: bool) ensures ret == (*b == 0u8) { *b == 0u8 });
        proof {
            match pos {
                Some(k) => {
                    assert(*rem0[k as int] == 0u8);
                    assert(forall|j: int| 0 <= j < k ==> *rem0[j] != 0u8);
                    assert(self.data@[offset + k] == 0u8);
                }
                None => {
                    assert(forall|j: int| 0 <= j < rem0.len() ==> *rem0[j] != 0u8);
                    assert forall|q: int| offset <= q < self.data@.len() implies self.data@[q] != 0u8 by {
                        assert(*rem0[q - offset] != 0u8);
                        assert(self.data@[q] == start@[q - offset]);
                    }
                }
            }
        }
        let end = pos
            .ok_or(ParseError::StringTableMissingNul(offset as u64))?;
        proof {
            assert(start@.subrange(0, end as int) =~= self.data@.subrange(offset as int, offset + end));
            assert forall|q: int| 0 <= q < end implies start@.subrange(0, end as int)[q] != 0u8 by {
                assert(*rem0[q] != 0u8);
            }
        }

        Ok(start.split_at(end).0)
    }

}
}
pub mod symbol {
use vstd::prelude::*;
use vstd::std_specs::iter::IteratorSpec;
use core::{marker::PhantomData, ops::Range};
use core::mem::size_of;
use crate::*;
use crate::endian::*;
use crate::parse::*;
use crate::string_table::*;
broadcast use crate::ax::axiom_slice_len_bound;
pub type SymbolTable<'data, E> = ParsingTable<'data, E, Symbol>;
#[derive(Debug, Clone, PartialEq, Eq)]
pub struct Symbol {
    /// This member holds an index into the symbol table's string table,
    /// which holds the character representations of the symbol names. If the
    /// value is non-zero, it represents a string table index that gives the
    /// symbol name. Otherwise, the symbol table entry has no name.
    pub st_name: u32,

    /// Every symbol table entry is defined in relation to some section. This
    /// member holds the relevant section header table index. As the sh_link and
    /// sh_info interpretation table and the related text describe, some section
    /// indexes indicate special meanings.
    ///
    /// If this member contains SHN_XINDEX, then the actual section header index
    /// is too large to fit in this field. The actual value is contained in the
    /// associated section of type SHT_SYMTAB_SHNDX.
    pub st_shndx: u16,

    /// This member specifies the symbol's type and binding attributes.
    pub st_info: u8,

    /// This member currently specifies a symbol's visibility.
    pub st_other: u8,

    /// This member gives the value of the associated symbol. Depending on the
    /// context, this may be an absolute value, an address, and so on.
    ///
    /// * In relocatable files, st_value holds alignment constraints for a
    ///   symbol whose section index is SHN_COMMON.
    /// * In relocatable files, st_value holds a section offset for a defined
    ///   symbol. st_value is an offset from the beginning of the section that
    ///   st_shndx identifies.
    /// * In executable and shared object files, st_value holds a virtual
    ///   address. To make these files' symbols more useful for the dynamic
    ///   linker, the section offset (file interpretation) gives way to a
    ///   virtual address (memory interpretation) for which the section number
    ///   is irrelevant.
    pub st_value: u64,

    /// This member gives the symbol's size.
    /// For example, a data object's size is the number of bytes contained in
    /// the object. This member holds 0 if the symbol has no size or an unknown
    /// size.
    pub st_size: u64,
}

impl Symbol {
    /// Returns true if a symbol is undefined in this ELF object.
    ///
    /// When linking and loading, undefined symbols in this object get linked to
    /// a defined symbol in another object.
    pub fn is_undefined(&self) -> bool {
        self.st_shndx == abi::SHN_UNDEF
    }

    pub fn st_symtype(&self) -> u8 {
        self.st_info & 0xf
    }

    pub fn st_bind(&self) -> u8 {
        self.st_info >> 4
    }

    pub fn st_vis(&self) -> u8 {
        self.st_other & 0x3
    }
}

impl ParseAt for Symbol {
    open spec fn spec_size(class: Class) -> nat { match class { Class::ELF32 => 16, Class::ELF64 => 24 } }
    proof fn lemma_size_pos(class: Class) {}
    open spec fn spec_accepts(little: bool, class: Class, w: Seq<u8>, b: int) -> bool { true }
    open spec fn spec_decode(little: bool, class: Class, w: Seq<u8>, b: int) -> Self {
        match class {
            Class::ELF32 => Symbol { st_name: fld(little, w, b, 4) as u32, st_value: fld(little, w, b + 4, 4) as u64, st_size: fld(little, w, b + 8, 4) as u64,
                                     st_info: fld(little, w, b + 12, 1) as u8, st_other: fld(little, w, b + 13, 1) as u8, st_shndx: fld(little, w, b + 14, 2) as u16 },
            Class::ELF64 => Symbol { st_name: fld(little, w, b, 4) as u32, st_info: fld(little, w, b + 4, 1) as u8, st_other: fld(little, w, b + 5, 1) as u8,
                                     st_shndx: fld(little, w, b + 6, 2) as u16, st_value: fld(little, w, b + 8, 8) as u64, st_size: fld(little, w, b + 16, 8) as u64 },
        }
    }

    fn parse_at<E: EndianParse>(
        endian: E,
        class: Class,
        offset: &mut usize,
        data: &[u8],
    ) -> Result<Self, ParseError> {
        let st_name: u32;
        let st_value: u64;
        let st_size: u64;
        let st_shndx: u16;
        let st_info: u8;
        let st_other: u8;

        if class == Class::ELF32 {
            st_name = endian.parse_u32_at(offset, data)?;
            st_value = endian.parse_u32_at(offset, data)? as u64;
            st_size = endian.parse_u32_at(offset, data)? as u64;
            st_info = endian.parse_u8_at(offset, data)?;
            st_other = endian.parse_u8_at(offset, data)?;
            st_shndx = endian.parse_u16_at(offset, data)?;
        } else {
            st_name = endian.parse_u32_at(offset, data)?;
            st_info = endian.parse_u8_at(offset, data)?;
            st_other = endian.parse_u8_at(offset, data)?;
            st_shndx = endian.parse_u16_at(offset, data)?;
            st_value = endian.parse_u64_at(offset, data)?;
            st_size = endian.parse_u64_at(offset, data)?;
        }

        Ok(Symbol {
            st_name,
            st_value,
            st_size,
            st_shndx,
            st_info,
            st_other,
        })
    }

    #[inline]
    fn size_for(class: Class) -> usize {
        match class {
            Class::ELF32 => 16,
            Class::ELF64 => 24,
        }
    }
}
}
pub mod hash {
use vstd::prelude::*;
use vstd::std_specs::iter::IteratorSpec;
use core::{marker::PhantomData, ops::Range};
use core::mem::size_of;
use crate::*;
use crate::endian::*;
use crate::parse::*;
use crate::string_table::*;
use crate::symbol::*;
broadcast use crate::ax::axiom_slice_len_bound;
impl ParseAt for u32 {
    open spec fn spec_size(class: Class) -> nat { 4 }
    proof fn lemma_size_pos(class: Class) {}
    open spec fn spec_accepts(little: bool, class: Class, w: Seq<u8>, b: int) -> bool { true }
    open spec fn spec_decode(little: bool, class: Class, w: Seq<u8>, b: int) -> Self { fld(little, w, b, 4) as u32 }

    fn parse_at<E: EndianParse>(
        endian: E,
        _class: Class,
        offset: &mut usize,
        data: &[u8],
    ) -> Result<Self, ParseError> {
        endian.parse_u32_at(offset, data)
    }

    #[inline]
    fn size_for(_class: Class) -> usize {
        core::mem::size_of::<u32>()
    }
}

type U32Table<'data, E> = ParsingTable<'data, E, u32>;

/// Header at the start of SysV Hash Table sections of type [SHT_HASH](crate::abi::SHT_HASH).
#[derive(Debug, Clone, PartialEq, Eq)]
pub struct SysVHashHeader {
    pub nbucket: u32,
    pub nchain: u32,
}

impl ParseAt for SysVHashHeader {
    open spec fn spec_size(class: Class) -> nat { 8 }
    proof fn lemma_size_pos(class: Class) {}
    open spec fn spec_accepts(little: bool, class: Class, w: Seq<u8>, b: int) -> bool { true }
    open spec fn spec_decode(little: bool, class: Class, w: Seq<u8>, b: int) -> Self { SysVHashHeader { nbucket: fld(little, w, b, 4) as u32, nchain: fld(little, w, b + 4, 4) as u32 } }

    fn parse_at<E: EndianParse>(
        endian: E,
        _class: Class,
        offset: &mut usize,
        data: &[u8],
    ) -> Result<Self, ParseError> {
        Ok(SysVHashHeader {
            nbucket: endian.parse_u32_at(offset, data)?,
            nchain: endian.parse_u32_at(offset, data)?,
        })
    }

    #[inline]
    fn size_for(_class: Class) -> usize {
        size_of::<u32>() + size_of::<u32>()
    }
}

/// Calculate the SysV hash value for a given symbol name.
// gABI reference (Figure 5-13), 32-bit arithmetic
pub open spec fn elf_hash_step(h: u32, c: u8) -> u32 {
    let h1 = add32((h << 4) as u32, c as u32);
    let g = h1 & 0xf0000000u32;
    let h2 = if g != 0 { h1 ^ (g >> 24) } else { h1 };
    h2 & !g
}
pub open spec fn elf_hash_ref(s: Seq<u8>) -> u32 decreases s.len() {
    if s.len() == 0 { 0 } else { elf_hash_step(elf_hash_ref(s.drop_last()), s.last()) }
}
pub open spec fn low28(x: u32) -> u32 { x & 0x0fffffffu32 }

proof fn lemma_step(h: u32, x: u32, c: u8, x1: u32, x2: u32)
    requires h == low28(x), x1 == add32(mul32(x, 16), c as u32), x2 == x1 ^ ((x1 >> 24) & 0xf0)
    ensures elf_hash_step(h, c) == low28(x2)
{
    // mul32(x,16) == (x << 4) as u32 == (low28(x) << 4)
    assert(mul32(x, 16) == ((x & 0x0fffffffu32) << 4u32)) by {
        assert((x as int * 16) % 0x1_0000_0000 == ((x & 0x0fffffffu32) << 4u32) as int) by (bit_vector);
    }
    let t = x1;
    assert(t == add32((h << 4) as u32, c as u32));
    assert( ({ let g = t & 0xf0000000u32; let h2 = if g != 0 { t ^ (g >> 24) } else { t }; h2 & !g })
            == (t ^ ((t >> 24) & 0xf0)) & 0x0fffffffu32 ) by (bit_vector);
}

pub fn sysv_hash(name: &[u8]) -> (r: u32)
    ensures r == elf_hash_ref(name@)
{
    let mut hash = 0u32;
    proof { assert(0u32 & 0x0fffffffu32 == 0u32) by (bit_vector); assert(name@.take(0) =~= Seq::<u8>::empty()); }
    for byte in it: name
        invariant low28(hash) == elf_hash_ref(name@.take(it.index@ as int)),
    {
        let ghost h0 = hash;
        hash = hash.wrapping_mul(16).wrapping_add(*byte as u32);
        let ghost h1 = hash;
        hash ^= (hash >> 24) & 0xf0;
        proof {
            let i = it.index@ as int;
            assert(name@.take(i + 1).drop_last() =~= name@.take(i));
            assert(name@.take(i + 1).last() == *byte);
            lemma_step(low28(h0), h0, *byte, h1, hash);
        }
    }
    proof { assert(name@.take(name@.len() as int) =~= name@); }
    hash & 0xfffffff
}

#[derive(Debug)]
pub struct SysVHashTable<'data, E: EndianParse> {
    buckets: U32Table<'data, E>,
    chains: U32Table<'data, E>,
}

/// This constructs a lazy-parsing type that keeps a reference to the provided data
/// bytes from which it lazily parses and interprets its contents.

/// gABI hash-table lookup: bucket, then follow chain[] until STN_UNDEF; `fuel` is the crate's
/// termination bound (nchain steps)
pub open spec fn sysv_walk<E: EndianParse>(chains: &U32Table<'_, E>, name: Seq<u8>, symtab: &SymbolTable<'_, E>, strs: Seq<u8>, idx: int, fuel: int) -> Lk
    decreases fuel
{
    if idx == 0 || fuel <= 0 { Lk::NotFound }
    else if idx >= symtab.slen() { Lk::Err }
    else if !strz_ok(strs, sym_at(symtab, idx).st_name as int) { Lk::Err }
    else if strz(strs, sym_at(symtab, idx).st_name as int) == name { Lk::Found(idx) }
    else if idx >= chains.slen() { Lk::Err }
    else { sysv_walk(chains, name, symtab, strs, tbl_u32(chains, idx) as int, fuel - 1) }
}
impl<'data, E: EndianParse> SysVHashTable<'data, E> {
    pub closed spec fn s_chains(&self) -> &U32Table<'data, E> { &self.chains }
    pub closed spec fn s_buckets(&self) -> &U32Table<'data, E> { &self.buckets }
    pub open spec fn lookup_ref(&self, name: Seq<u8>, symtab: &SymbolTable<'data, E>, strs: Seq<u8>) -> Lk {
        let nb = self.s_buckets().slen();
        if nb == 0 { Lk::NotFound } else {
            let h = elf_hash_ref(name);
            sysv_walk(self.s_chains(), name, symtab, strs, tbl_u32(self.s_buckets(), (h as int) % (nb as int)) as int, self.s_chains().slen() as int)
        }
    }

    /// Construct a SysVHashTable from given bytes. Keeps a reference to the data for lazy parsing.
    pub fn new(endian: E, class: Class, data: &'data [u8]) -> Result<Self, ParseError> {
        let mut offset = 0;
        let hdr = SysVHashHeader::parse_at(endian, class, &mut offset, data)?;

        let buckets_size = size_of::<u32>()
            .checked_mul(hdr.nbucket.try_into()?)
            .ok_or(ParseError::IntegerOverflow)?;
        let buckets_end = offset
            .checked_add(buckets_size)
            .ok_or(ParseError::IntegerOverflow)?;
        let buckets_buf = data.get_bytes(offset..buckets_end)?;
        let buckets = U32Table::new(endian, class, buckets_buf);
        offset = buckets_end;

        let chains_size = size_of::<u32>()
            .checked_mul(hdr.nchain.try_into()?)
            .ok_or(ParseError::IntegerOverflow)?;
        let chains_end = offset
            .checked_add(chains_size)
            .ok_or(ParseError::IntegerOverflow)?;
        let chains_buf = data.get_bytes(offset..chains_end)?;
        let chains = U32Table::new(endian, class, chains_buf);

        Ok(SysVHashTable { buckets, chains })
    }

    /// Use the hash table to find the symbol table entry with the given name and hash.
    pub fn find(
        &self,
        name: &[u8],
        symtab: &SymbolTable<'data, E>,
        strtab: &StringTable<'data>,
    ) -> (r: Result<Option<(usize, Symbol)>, ParseError>)
        ensures lk_matches(r, self.lookup_ref(name@, symtab, strtab.sdata()@), symtab)
    {
        // empty hash tables don't have any entries. This avoids a divde by zero in the modulus calculation
        if self.buckets.is_empty() {
            return Ok(None);
        }

        let hash = sysv_hash(name);

        let start = (hash as usize) % self.buckets.len();
        let mut index = self.buckets.get(start)? as usize;

        // Bound the number of chain lookups by the chain size so we don't loop forever
        let mut i = 0;
        let ghost strs = strtab.sdata()@;
        let ghost goal = self.lookup_ref(name@, symtab, strs);
        while index != 0 && i < self.chains.len()
            invariant
                strs == strtab.sdata()@, goal == self.lookup_ref(name@, symtab, strs),
                0 <= i <= self.s_chains().slen(),
                goal == sysv_walk(self.s_chains(), name@, symtab, strs, index as int, self.s_chains().slen() - i),
            decreases self.chains.slen() - i
        {
            let symbol = symtab.get(index)?;
            let vraw = strtab.get_raw(symbol.st_name as usize)?;
            proof {
                let off = symbol.st_name as int;
                assert(is_strz(strs, off, vraw@));
                lemma_strz_unique(strs, off, vraw@, strz(strs, off));
                assert(strz(strs, off) == vraw@);
                assert(symbol == sym_at(symtab, index as int));
            }
            if vraw == name {
                proof { assert(vraw@ == name@); }
                return Ok(Some((index, symbol)));
            }

            index = self.chains.get(index)? as usize;
            i += 1;
        }
        Ok(None)
    }
}

/// Calculate the GNU hash for a given symbol name.
pub open spec fn add32(a: u32, b: u32) -> u32 { ((a as int + b as int) % 0x1_0000_0000) as u32 }
pub open spec fn mul32(a: u32, b: u32) -> u32 { ((a as int * b as int) % 0x1_0000_0000) as u32 }
pub open spec fn gnu_hash_ref(s: Seq<u8>) -> u32 decreases s.len() {
    if s.len() == 0 { 5381u32 } else { add32(mul32(gnu_hash_ref(s.drop_last()), 33), s.last() as u32) }
}
pub fn gnu_hash(name: &[u8]) -> (r: u32)
    ensures r == gnu_hash_ref(name@)
{
    let mut hash = 5381u32;
    proof { assert(name@.take(0) =~= Seq::<u8>::empty()); }
    for byte in it: name
        invariant hash == gnu_hash_ref(name@.take(it.index@ as int)),
    {
        proof {
            let i = it.index@ as int;
            assert(name@.take(i + 1).drop_last() =~= name@.take(i));
            assert(name@.take(i + 1).last() == *byte);
        }
        hash = hash.wrapping_mul(33).wrapping_add(u32::from(*byte));
    }
    proof { assert(name@.take(name@.len() as int) =~= name@); }
    hash
}

/// Header at the start of a GNU extension Hash Table section of type [SHT_GNU_HASH](crate::abi::SHT_GNU_HASH).
#[derive(Debug, Clone, PartialEq, Eq)]
pub struct GnuHashHeader {
    pub nbucket: u32,
    /// The symbol table index of the first symbol in the hash table.
    /// (GNU hash sections omit symbols at the start of the table that wont be looked up)
    pub table_start_idx: u32,
    /// The number of words in the bloom filter. (must be a non-zero power of 2)
    pub nbloom: u32,
    /// The bit shift count for the bloom filter.
    pub nshift: u32,
}

impl ParseAt for GnuHashHeader {
    open spec fn spec_size(class: Class) -> nat { 16 }
    proof fn lemma_size_pos(class: Class) {}
    open spec fn spec_accepts(little: bool, class: Class, w: Seq<u8>, b: int) -> bool { true }
    open spec fn spec_decode(little: bool, class: Class, w: Seq<u8>, b: int) -> Self { GnuHashHeader { nbucket: fld(little, w, b, 4) as u32, table_start_idx: fld(little, w, b + 4, 4) as u32, nbloom: fld(little, w, b + 8, 4) as u32, nshift: fld(little, w, b + 12, 4) as u32 } }

    fn parse_at<E: EndianParse>(
        endian: E,
        _class: Class,
        offset: &mut usize,
        data: &[u8],
    ) -> Result<Self, ParseError> {
        Ok(GnuHashHeader {
            nbucket: endian.parse_u32_at(offset, data)?,
            table_start_idx: endian.parse_u32_at(offset, data)?,
            nbloom: endian.parse_u32_at(offset, data)?,
            nshift: endian.parse_u32_at(offset, data)?,
        })
    }

    #[inline]
    fn size_for(_class: Class) -> usize {
        size_of::<u32>() + size_of::<u32>() + size_of::<u32>() + size_of::<u32>()
    }
}

type U64Table<'data, E> = ParsingTable<'data, E, u64>;

impl ParseAt for u64 {
    open spec fn spec_size(class: Class) -> nat { 8 }
    proof fn lemma_size_pos(class: Class) {}
    open spec fn spec_accepts(little: bool, class: Class, w: Seq<u8>, b: int) -> bool { true }
    open spec fn spec_decode(little: bool, class: Class, w: Seq<u8>, b: int) -> Self { fld(little, w, b, 8) as u64 }

    fn parse_at<E: EndianParse>(
        endian: E,
        _class: Class,
        offset: &mut usize,
        data: &[u8],
    ) -> Result<Self, ParseError> {
        endian.parse_u64_at(offset, data)
    }

    #[inline]
    fn size_for(_class: Class) -> usize {
        core::mem::size_of::<u64>()
    }
}

#[derive(Debug)]
pub struct GnuHashTable<'data, E: EndianParse> {
    pub hdr: GnuHashHeader,

    endian: E,
    class: Class,
    bloom: &'data [u8],
    buckets: U32Table<'data, E>,
    chains: U32Table<'data, E>,
}


// ---------- reference semantics (from the GNU hash section description) ----------
pub open spec fn is_strz(d: Seq<u8>, off: int, t: Seq<u8>) -> bool {
    &&& 0 <= off && off + t.len() < d.len() && t == d.subrange(off, off + t.len()) && d[off + t.len()] == 0
    &&& forall|k: int| 0 <= k < t.len() ==> t[k] != 0
}
pub open spec fn strz_ok(d: Seq<u8>, off: int) -> bool { 0 <= off < d.len() && exists|k: int| off <= k < d.len() && d[k] == 0 }
pub open spec fn strz(d: Seq<u8>, off: int) -> Seq<u8> { choose|t: Seq<u8>| is_strz(d, off, t) }
pub proof fn lemma_strz_unique(d: Seq<u8>, off: int, a: Seq<u8>, b: Seq<u8>)
    requires is_strz(d, off, a), is_strz(d, off, b)
    ensures a == b
{
    if a.len() < b.len() { assert(b[a.len() as int] == d[off + a.len()]); assert(false); }
    if b.len() < a.len() { assert(a[b.len() as int] == d[off + b.len()]); assert(false); }
    assert(a =~= b);
}
pub open spec fn tbl_u32<E: EndianParse>(t: &U32Table<'_, E>, i: int) -> u32 {
    u32::spec_decode(t.sendian().spec_is_little(), t.sclass(), t.sdata()@, i * 4)
}
pub open spec fn sym_at<E: EndianParse>(t: &SymbolTable<'_, E>, i: int) -> Symbol {
    Symbol::spec_decode(t.sendian().spec_is_little(), t.sclass(), t.sdata()@, i * Symbol::spec_size(t.sclass()))
}
pub enum Lk { Err, NotFound, Found(int) }
// chain walk from chain index i
pub open spec fn gnu_walk<E: EndianParse>(chains: &U32Table<'_, E>, symoff: int, h: u32, name: Seq<u8>, symtab: &SymbolTable<'_, E>, strs: Seq<u8>, i: int) -> Lk
    decreases chains.slen() - i
{
    if i < 0 || i >= chains.slen() { Lk::NotFound } else {
        let ch = tbl_u32(chains, i);
        if (h | 1) == (ch | 1) {
            let si = i + symoff;
            if si > usize::MAX || si >= symtab.slen() { Lk::Err }
            else if !strz_ok(strs, sym_at(symtab, si).st_name as int) { Lk::Err }
            else if strz(strs, sym_at(symtab, si).st_name as int) == name { Lk::Found(si) }
            else if ch & 1 != 0 { Lk::NotFound } else { gnu_walk(chains, symoff, h, name, symtab, strs, i + 1) }
        } else if ch & 1 != 0 { Lk::NotFound } else { gnu_walk(chains, symoff, h, name, symtab, strs, i + 1) }
    }
}

pub open spec fn tbl_u64<E: EndianParse>(t: &U64Table<'_, E>, i: int) -> u64 {
    u64::spec_decode(t.sendian().spec_is_little(), t.sclass(), t.sdata()@, i * 8)
}
pub open spec fn lk_matches<E: EndianParse>(r: Result<Option<(usize, Symbol)>, ParseError>, l: Lk, symtab: &SymbolTable<'_, E>) -> bool {
    match l {
        Lk::Err => r is Err,
        Lk::NotFound => r is Ok && r->Ok_0 is None,
        Lk::Found(i) => r is Ok && r->Ok_0 is Some && r->Ok_0->Some_0.0 == i && r->Ok_0->Some_0.1 == sym_at(symtab, i),
    }
}
impl<'data, E: EndianParse> GnuHashTable<'data, E> {
    pub closed spec fn s_chains(&self) -> &U32Table<'data, E> { &self.chains }
    pub closed spec fn s_buckets(&self) -> &U32Table<'data, E> { &self.buckets }
    pub closed spec fn s_bloom(&self) -> &'data [u8] { self.bloom }
    pub closed spec fn s_class(&self) -> Class { self.class }
    pub closed spec fn s_endian(&self) -> E { self.endian }
    /// GNU hash lookup as the format defines it, over whatever bytes the table holds
    pub closed spec fn s_hdr(&self) -> GnuHashHeader { self.hdr }
    pub open spec fn lookup_ref(&self, name: Seq<u8>, symtab: &SymbolTable<'data, E>, strs: Seq<u8>) -> Lk {
        let h = gnu_hash_ref(name);
        let nb = self.s_buckets().slen();
        if nb == 0 || self.s_hdr().nbloom == 0 { Lk::NotFound } else {
            let c: u32 = match self.s_class() { Class::ELF32 => 32u32, Class::ELF64 => 64u32 };
            let bi = ((h / c) % self.s_hdr().nbloom) as int;
            let nwords = match self.s_class() { Class::ELF32 => self.s_bloom()@.len() / 4, Class::ELF64 => self.s_bloom()@.len() / 8 };
            if bi >= nwords { Lk::Err } else {
                let l = self.s_endian().spec_is_little();
                let word: u64 = match self.s_class() {
                    Class::ELF32 => u32::spec_decode(l, self.s_class(), self.s_bloom()@, bi * 4) as u64,
                    Class::ELF64 => u64::spec_decode(l, self.s_class(), self.s_bloom()@, bi * 8),
                };
                if word & (1u64 << (h % c)) == 0 { Lk::NotFound }
                else if self.s_hdr().nshift >= 32 { Lk::Err }
                else if word & (1u64 << ((h >> self.s_hdr().nshift) % c)) == 0 { Lk::NotFound }
                else {
                    let b = tbl_u32(self.s_buckets(), (h as int) % (nb as int)) as int;
                    let so = self.s_hdr().table_start_idx as int;
                    if b < so { Lk::NotFound } else { gnu_walk(self.s_chains(), so, h, name, symtab, strs, b - so) }
                }
            }
        }
    }

    /// Construct a GnuHashTable from given bytes. Keeps a reference to the data for lazy parsing.
    pub fn new(endian: E, class: Class, data: &'data [u8]) -> Result<Self, ParseError> {
        let mut offset = 0;
        let hdr = GnuHashHeader::parse_at(endian, class, &mut offset, data)?;

        // length of the bloom filter in bytes. ELF32 is [u32; nbloom], ELF64 is [u64; nbloom].
        let nbloom: usize = hdr.nbloom as usize;
        let bloom_size = match class {
            Class::ELF32 => nbloom
                .checked_mul(size_of::<u32>())
                .ok_or(ParseError::IntegerOverflow)?,
            Class::ELF64 => nbloom
                .checked_mul(size_of::<u64>())
                .ok_or(ParseError::IntegerOverflow)?,
        };
        let bloom_end = offset
            .checked_add(bloom_size)
            .ok_or(ParseError::IntegerOverflow)?;
        let bloom_buf = data.get_bytes(offset..bloom_end)?;
        offset = bloom_end;

        let buckets_size = size_of::<u32>()
            .checked_mul(hdr.nbucket.try_into()?)
            .ok_or(ParseError::IntegerOverflow)?;
        let buckets_end = offset
            .checked_add(buckets_size)
            .ok_or(ParseError::IntegerOverflow)?;
        let buckets_buf = data.get_bytes(offset..buckets_end)?;
        let buckets = U32Table::new(endian, class, buckets_buf);
        offset = buckets_end;

        // the rest of the section is the chains
        let chains_buf = data
            .get(offset..)
            .ok_or(ParseError::SliceReadError((offset, data.len())))?;
        let chains = U32Table::new(endian, class, chains_buf);

        Ok(GnuHashTable {
            hdr,
            endian,
            class,
            bloom: bloom_buf,
            buckets,
            chains,
        })
    }

    /// Use the hash table to find the symbol table entry with the given name.
    pub fn find(
        &self,
        name: &[u8],
        symtab: &SymbolTable<'data, E>,
        strtab: &StringTable<'data>,
    ) -> (r: Result<Option<(usize, Symbol)>, ParseError>)
        ensures lk_matches(r, self.lookup_ref(name@, symtab, strtab.sdata()@), symtab)
    {
        // empty hash tables don't have any entries. This avoids a divde by zero in the modulus calculation,
        // and also avoids a potential division by zero panic in the bloom filter index calculation.
        if self.buckets.is_empty() || self.hdr.nbloom == 0 {
            return Ok(None);
        }

        let hash = gnu_hash(name);

        // Test against bloom filter.
        let (bloom_width, filter) = match self.class {
            Class::ELF32 => {
                let bloom_width: u32 = 8 * size_of::<u32>() as u32; // 32
                let bloom_idx = (hash / (bloom_width)) % self.hdr.nbloom;
                let bloom_table = U32Table::new(self.endian, self.class, self.bloom);
                (bloom_width, bloom_table.get(bloom_idx as usize)? as u64)
            }
            Class::ELF64 => {
                let bloom_width: u32 = 8 * size_of::<u64>() as u32; // 64
                let bloom_idx = (hash / (bloom_width)) % self.hdr.nbloom;
                let bloom_table = U64Table::new(self.endian, self.class, self.bloom);
                (bloom_width, bloom_table.get(bloom_idx as usize)?)
            }
        };

        // Check bloom filter for both hashes - symbol is present in the hash table IFF both bits are set.
        if filter & (1 << (hash % bloom_width)) == 0 {
            return Ok(None);
        }
        let hash2 = hash
            .checked_shr(self.hdr.nshift)
            .ok_or(ParseError::IntegerOverflow)?;
        if filter & (1 << (hash2 % bloom_width)) == 0 {
            return Ok(None);
        }

        let table_start_idx = self.hdr.table_start_idx as usize;
        let chain_start_idx = self.buckets.get((hash as usize) % self.buckets.len())? as usize;
        if chain_start_idx < table_start_idx {
            // All symbols before table_start_idx don't exist in the hash table
            return Ok(None);
        }

        let chain_len = self.chains.len();
        let ghost h = gnu_hash_ref(name@);
        let ghost so = table_start_idx as int;
        let ghost start = chain_start_idx - table_start_idx;
        let ghost strs = strtab.sdata()@;
        let ghost mut done = false;
        proof {
            assert(self.lookup_ref(name@, symtab, strs) == gnu_walk(self.s_chains(), so, h, name@, symtab, strs, start));
        }
        let mut vit = ((chain_start_idx - table_start_idx)..chain_len).into_iter();
        loop
            invariant_except_break
                !done,
            invariant
                vit.end == chain_len, vit.start >= start,
                hash == h, so == table_start_idx as int, strs == strtab.sdata()@, chain_len == self.s_chains().slen(),
                start == chain_start_idx - table_start_idx, start >= 0,
                !done ==> self.lookup_ref(name@, symtab, strs) == gnu_walk(self.s_chains(), so, h, name@, symtab, strs, vit.start as int),
                done ==> self.lookup_ref(name@, symtab, strs) == Lk::NotFound,
            ensures done || vit.start >= chain_len
            decreases vit.end - vit.start, if done { 0int } else { 1int }
        { let chain_idx = match vit.next() { Some(v) => v, None => break, };
            let chain_hash = self.chains.get(chain_idx)?;

            // compare the hashes by or'ing the 1's bit back on
            if hash | 1 == chain_hash | 1 {
                // we have a hash match!
                // let's see if this symtab[sym_idx].name is what we're looking for
                let sym_idx = chain_idx
                    .checked_add(table_start_idx)
                    .ok_or(ParseError::IntegerOverflow)?;
                let symbol = symtab.get(sym_idx)?;
                let r_sym_name = strtab.get_raw(symbol.st_name as usize)?;
                proof {
                    let off = symbol.st_name as int;
                    assert(is_strz(strs, off, r_sym_name@));
                    lemma_strz_unique(strs, off, r_sym_name@, strz(strs, off));
                }

                proof {
                    assert(strz(strs, symbol.st_name as int) == r_sym_name@);
                    assert(symbol == sym_at(symtab, sym_idx as int));
                    assert(self.lookup_ref(name@, symtab, strs) == gnu_walk(self.s_chains(), so, h, name@, symtab, strs, chain_idx as int));
                }
                if r_sym_name == name {
                    proof { assert(r_sym_name@ == name@); }
                    return Ok(Some((sym_idx, symbol)));
                }
            }

            // the chain uses the 1's bit to signal chain comparison stoppage
            if chain_hash & 1 != 0 {
                proof { done = true; }
                break;
            }
        }

        Ok(None)
    }
}
}
}
fn main(){}
