import re,sys
R='/repo/src/'
mods=['abi','parse','endian','file','section','segment','symbol','relocation','dynamic','compression','string_table','note','hash','gnu_symver','elf_bytes']
def strip_tests(s):
    idx=[mm.start() for mm in re.finditer(r'\n#\[cfg\(test\)\]', s)]
    if idx: s=s[:idx[0]]+"\n"
    return s
out=['#![allow(unused_imports, dead_code, non_camel_case_types)]','use vstd::prelude::*;','verus! {','global size_of usize == 8;']
for m in mods:
    s=open(R+m+'.rs').read()
    s=strip_tests(s)
    s=re.sub(r'^//!.*\n','',s,flags=re.M)
    if m=='parse':
        s=re.sub(r'    #\[cfg\(feature = "std"\)\]\n    /// Returned when parsing an ELF structure out of an io stream encountered\n    /// an io error.\n    IOError\(std::io::Error\),\n','',s)
        s=re.sub(r'#\[cfg\(feature = "std"\)\]\nimpl std::error::Error for ParseError \{.*?\n\}\n','',s,flags=re.S)
        s=re.sub(r'#\[cfg\(not\(feature = "std"\)\)\]\nimpl core::error::Error for ParseError \{.*?\n\}\n','',s,flags=re.S)
        s=re.sub(r'impl core::fmt::Display for ParseError \{.*?\n\}\n','',s,flags=re.S)
        s=re.sub(r'#\[cfg\(feature = "std"\)\]\nimpl From<std::io::Error> for ParseError \{.*?\n\}\n','',s,flags=re.S)
    s=re.sub(r'^(pub const \w+: )&(\[u8\]|str)', r"\1&'static \2", s, flags=re.M)
    s=s.replace("<$typ>::from_le_bytes(buf)","<$typ as crate::shims::FromBytesShim<{SIZE}>>::shim_from_le_bytes(buf)").replace("<$typ>::from_be_bytes(buf)","<$typ as crate::shims::FromBytesShim<{SIZE}>>::shim_from_be_bytes(buf)")
    if m=='endian':
        mm=re.search(r'macro_rules! safe_from \{\n    \( \$self:ident, \$typ:ty, \$off:ident, \$data:ident\) => \{\{\n(.*?)\n    \}\};\n\}\n', s, re.S)
        body=mm.group(1)
        s=s[:mm.start()]+s[mm.end():]
        sizes={'u8':1,'u16':2,'u32':4,'u64':8,'i32':4,'i64':8}
        def expand(mo):
            t=mo.group(2)
            b=body.replace('$self',mo.group(1)).replace('$typ',t).replace('$off',mo.group(3)).replace('$data',mo.group(4))
            b=re.sub(r'\s*const SIZE: usize = core::mem::size_of::<\w+>\(\);\n','\n',b)
            b=b.replace('SIZE',str(sizes[t]))
            return '{'+b+'\n}'
        s=re.sub(r'safe_from!\((\w+), (\w+), (\w+), (\w+)\)', expand, s)
    if m=='abi':
        s=s.replace("pub const ELF_NOTE_GNU: &'static [u8] = b\"GNU\\0\";","pub exec const ELF_NOTE_GNU: &'static [u8] ensures ELF_NOTE_GNU@ == seq![71u8, 78u8, 85u8, 0u8] { let x: &'static [u8; 4] = &[71u8, 78u8, 85u8, 0u8]; x }")
    s=s.replace("    pub fn name_str(&self)","    #[verifier::external_body]\n    pub fn name_str(&self)")
    s=s.replace(".position(|&b| b == 0u8)",".position(|b: &u8| -> (ret: bool) ensures ret == (*b == 0u8) { *b == 0u8 })")
    out.append('pub mod %s {\nuse vstd::prelude::*;\n%s\n}'%(m,s))
impls=''
for t,n in (('u8',1),('u16',2),('u32',4),('u64',8),('i32',4),('i64',8)):
    impls+='''impl FromBytesShim<%d> for %s {
    #[verifier::external_body] fn shim_from_le_bytes(b: [u8; %d]) -> %s { %s::from_le_bytes(b) }
    #[verifier::external_body] fn shim_from_be_bytes(b: [u8; %d]) -> %s { %s::from_be_bytes(b) }
}
'''%(n,t,n,t,t,n,t,t)
out.append(open('prelude.rs').read().replace('@SHIMIMPLS@',impls))
out.append('}\nfn main(){}')
open('full.rs','w').write('\n'.join(out))
