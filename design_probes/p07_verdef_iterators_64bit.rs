use vstd::prelude::*;
use vstd::std_specs::iter::IteratorSpec;
use core::{marker::PhantomData, ops::Range};
verus! {
#[verifier::external_type_specification]
#[verifier::external_body]
pub struct ExTryFromSliceError(core::array::TryFromSliceError);

#[verifier::external_type_specification]
#[verifier::external_body]
pub struct ExUtf8Error(core::str::Utf8Error);
pub enum ParseError {
    BadMagic([u8; 4]),
    UnsupportedElfClass(u8),
    UnsupportedElfEndianness(u8),
    UnsupportedVersion((u64, u64)),
    BadOffset(u64),
    StringTableMissingNul(u64),
    BadEntsize((u64, u64)),
    UnexpectedSectionType((u32, u32)),
    UnexpectedSegmentType((u32, u32)),
    UnexpectedAlignment(usize),
    SliceReadError((usize, usize)),
    IntegerOverflow,
    Utf8Error(core::str::Utf8Error),
    TryFromSliceError(core::array::TryFromSliceError),
    TryFromIntError(core::num::TryFromIntError),
}
impl From<core::num::TryFromIntError> for ParseError {
    #[verifier::external_body]
    fn from(err: core::num::TryFromIntError) -> Self {
        ParseError::TryFromIntError(err)
    }
}
impl vstd::std_specs::convert::FromSpecImpl<core::num::TryFromIntError> for ParseError {
    open spec fn obeys_from_spec() -> bool { true }
    open spec fn from_spec(v: core::num::TryFromIntError) -> Self { ParseError::TryFromIntError(v) }
}
impl From<core::array::TryFromSliceError> for ParseError {
    #[verifier::external_body]
    fn from(err: core::array::TryFromSliceError) -> Self {
        ParseError::TryFromSliceError(err)
    }
}
impl vstd::std_specs::convert::FromSpecImpl<core::array::TryFromSliceError> for ParseError {
    open spec fn obeys_from_spec() -> bool { true }
    open spec fn from_spec(v: core::array::TryFromSliceError) -> Self { ParseError::TryFromSliceError(v) }
}

// ---- spec of byte order
pub open spec fn le_val(s: Seq<u8>) -> nat decreases s.len() {
    if s.len() == 0 { 0 } else { s[0] as nat + 256 * le_val(s.drop_first()) }
}
pub open spec fn be_val(s: Seq<u8>) -> nat decreases s.len() {
    if s.len() == 0 { 0 } else { be_val(s.drop_last()) * 256 + s.last() as nat }
}
pub open spec fn uval(little: bool, s: Seq<u8>) -> nat { if little { le_val(s) } else { be_val(s) } }
// two's complement
pub open spec fn sval(little: bool, s: Seq<u8>) -> int {
    let u = uval(little, s) as int; let m = pow256(s.len()) as int;
    if 2*u >= m { u - m } else { u }
}
pub open spec fn pow256(n: nat) -> nat decreases n { if n == 0 { 1 } else { 256 * pow256((n-1) as nat) } }

#[verifier::external_body]
fn shim_u16_from_le_bytes(b: [u8; 2]) -> (r: u16) ensures r as nat == le_val(b@) { u16::from_le_bytes(b) }
#[verifier::external_body]
fn shim_u16_from_be_bytes(b: [u8; 2]) -> (r: u16) ensures r as nat == be_val(b@) { u16::from_be_bytes(b) }
#[verifier::external_body]
fn shim_i32_from_le_bytes(b: [u8; 4]) -> (r: i32) ensures r as int == sval(true, b@) { i32::from_le_bytes(b) }
#[verifier::external_body]
fn shim_i32_from_be_bytes(b: [u8; 4]) -> (r: i32) ensures r as int == sval(false, b@) { i32::from_be_bytes(b) }

#[verifier::external_body]
fn shim_u32_from_le_bytes(b: [u8; 4]) -> (r: u32) ensures r as nat == le_val(b@) { u32::from_le_bytes(b) }
#[verifier::external_body]
fn shim_u32_from_be_bytes(b: [u8; 4]) -> (r: u32) ensures r as nat == be_val(b@) { u32::from_be_bytes(b) }
#[verifier::external_body]
fn shim_u64_from_le_bytes(b: [u8; 8]) -> (r: u64) ensures r as nat == le_val(b@) { u64::from_le_bytes(b) }
#[verifier::external_body]
fn shim_u64_from_be_bytes(b: [u8; 8]) -> (r: u64) ensures r as nat == be_val(b@) { u64::from_be_bytes(b) }
#[verifier::external_body]
fn shim_u8_from_le_bytes(b: [u8; 1]) -> (r: u8) ensures r as nat == le_val(b@) { u8::from_le_bytes(b) }
#[verifier::external_body]
fn shim_u8_from_be_bytes(b: [u8; 1]) -> (r: u8) ensures r as nat == be_val(b@) { u8::from_be_bytes(b) }
pub assume_specification<'a, T: Copy, const N: usize>[ <[T; N] as TryFrom<&'a [T]>>::try_from ](s: &[T]) -> (r: Result<[T; N], core::array::TryFromSliceError>)
    ensures s@.len() == N ==> (r is Ok && r->Ok_0@ == s@),
            s@.len() != N ==> r is Err;

pub mod ax { use vstd::prelude::*;
use vstd::std_specs::iter::IteratorSpec;
#[verifier::external_body]
pub broadcast proof fn axiom_slice_len_bound(s: &[u8]) ensures #[trigger] s@.len() <= isize::MAX {}
}
broadcast use ax::axiom_slice_len_bound;

pub proof fn lemma_index_in_table(i: nat, sz: nat, len: nat)
    requires sz > 0
    ensures i < len / sz <==> i * sz + sz <= len
{
    vstd::arithmetic::div_mod::lemma_fundamental_div_mod(len as int, sz as int);
    vstd::arithmetic::div_mod::lemma_mod_bound(len as int, sz as int);
    let q = len / sz;
    if i < q {
        assert((i + 1) * sz <= q * sz) by (nonlinear_arith) requires i + 1 <= q, sz > 0;
        assert((i + 1) * sz == i * sz + sz) by (nonlinear_arith);
        assert(q * sz == sz * q) by (nonlinear_arith);
    } else {
        assert(q * sz <= i * sz) by (nonlinear_arith) requires q <= i, sz > 0;
        assert(q * sz == sz * q) by (nonlinear_arith);
    }
}
pub open spec fn read_ok(off: usize, w: nat, data: &[u8]) -> bool { off + w <= data@.len() }
pub open spec fn window(off: usize, w: nat, data: &[u8]) -> Seq<u8> { data@.subrange(off as int, off + w) }

pub trait EndianParse: Clone + Copy + Default + PartialEq + Eq {
    spec fn spec_is_little(self) -> bool;

    fn parse_u16_at(self, offset: &mut usize, data: &[u8]) -> (r: Result<u16, ParseError>)
        ensures
            read_ok(*old(offset), 2, data) <==> r is Ok,
            r is Ok ==> *final(offset) == *old(offset) + 2 && r->Ok_0 as nat == uval(self.spec_is_little(), window(*old(offset), 2, data)),
            r is Err ==> *final(offset) == *old(offset),
    {
        let end = (*offset)
            .checked_add(2)
            .ok_or(ParseError::IntegerOverflow)?;

        let buf: [u8; 2] = data
            .get(*offset..end)
            .ok_or(ParseError::SliceReadError((*offset, end)))?
            .try_into()?;

        *offset = end;

        if self.is_little() {
            Ok(shim_u16_from_le_bytes(buf))
        } else {
            Ok(shim_u16_from_be_bytes(buf))
        }
    }
    fn parse_u32_at(self, offset: &mut usize, data: &[u8]) -> (r: Result<u32, ParseError>)
        ensures
            read_ok(*old(offset), 4, data) <==> r is Ok,
            r is Ok ==> *final(offset) == *old(offset) + 4 && r->Ok_0 as nat == uval(self.spec_is_little(), window(*old(offset), 4, data)),
            r is Err ==> *final(offset) == *old(offset),
    {
        let end = (*offset)
            .checked_add(4)
            .ok_or(ParseError::IntegerOverflow)?;

        let buf: [u8; 4] = data
            .get(*offset..end)
            .ok_or(ParseError::SliceReadError((*offset, end)))?
            .try_into()?;

        *offset = end;

        if self.is_little() {
            Ok(shim_u32_from_le_bytes(buf))
        } else {
            Ok(shim_u32_from_be_bytes(buf))
        }
    }
    fn parse_u64_at(self, offset: &mut usize, data: &[u8]) -> (r: Result<u64, ParseError>)
        ensures
            read_ok(*old(offset), 8, data) <==> r is Ok,
            r is Ok ==> *final(offset) == *old(offset) + 8 && r->Ok_0 as nat == uval(self.spec_is_little(), window(*old(offset), 8, data)),
            r is Err ==> *final(offset) == *old(offset),
    {
        let end = (*offset)
            .checked_add(8)
            .ok_or(ParseError::IntegerOverflow)?;

        let buf: [u8; 8] = data
            .get(*offset..end)
            .ok_or(ParseError::SliceReadError((*offset, end)))?
            .try_into()?;

        *offset = end;

        if self.is_little() {
            Ok(shim_u64_from_le_bytes(buf))
        } else {
            Ok(shim_u64_from_be_bytes(buf))
        }
    }
    fn parse_u8_at(self, offset: &mut usize, data: &[u8]) -> (r: Result<u8, ParseError>)
        ensures
            read_ok(*old(offset), 1, data) <==> r is Ok,
            r is Ok ==> *final(offset) == *old(offset) + 1 && r->Ok_0 as nat == uval(self.spec_is_little(), window(*old(offset), 1, data)),
            r is Err ==> *final(offset) == *old(offset),
    {
        let end = (*offset)
            .checked_add(1)
            .ok_or(ParseError::IntegerOverflow)?;

        let buf: [u8; 1] = data
            .get(*offset..end)
            .ok_or(ParseError::SliceReadError((*offset, end)))?
            .try_into()?;

        *offset = end;

        if self.is_little() {
            Ok(shim_u8_from_le_bytes(buf))
        } else {
            Ok(shim_u8_from_be_bytes(buf))
        }
    }
    fn parse_i32_at(self, offset: &mut usize, data: &[u8]) -> (r: Result<i32, ParseError>)
        ensures
            read_ok(*old(offset), 4, data) <==> r is Ok,
            r is Ok ==> *final(offset) == *old(offset) + 4 && r->Ok_0 as int == sval(self.spec_is_little(), window(*old(offset), 4, data)),
            r is Err ==> *final(offset) == *old(offset),
    {
        let end = (*offset)
            .checked_add(4)
            .ok_or(ParseError::IntegerOverflow)?;

        let buf: [u8; 4] = data
            .get(*offset..end)
            .ok_or(ParseError::SliceReadError((*offset, end)))?
            .try_into()?;

        *offset = end;

        if self.is_little() {
            Ok(shim_i32_from_le_bytes(buf))
        } else {
            Ok(shim_i32_from_be_bytes(buf))
        }
    }

    fn from_ei_data(ei_data: u8) -> Result<Self, ParseError>;

    fn is_little(self) -> (r: bool) ensures r == self.spec_is_little();

    #[inline(always)]
    fn is_big(self) -> bool {
        !self.is_little()
    }
}

#[derive(Debug, Copy, Clone, PartialEq, Eq)]
pub enum Class {
    ELF32,
    ELF64,
}
pub trait ParseAt: Sized {
    /// Parse this type by using the given endian-awareness and ELF class layout.
    /// This is generic on EndianParse in order to allow users to optimize for
    /// their expectations of data layout. See EndianParse for more details.
    spec fn spec_size(class: Class) -> nat;
    proof fn lemma_size_pos(class: Class) ensures Self::spec_size(class) > 0;
    spec fn spec_accepts(little: bool, class: Class, w: Seq<u8>) -> bool;
    spec fn spec_decode(little: bool, class: Class, w: Seq<u8>, b: int) -> Self;
    fn parse_at<E: EndianParse>(
        endian: E,
        class: Class,
        offset: &mut usize,
        data: &[u8],
    ) -> (r: Result<Self, ParseError>)
        ensures
            r is Ok <==> (read_ok(*old(offset), Self::spec_size(class), data) && Self::spec_accepts(endian.spec_is_little(), class, window(*old(offset), Self::spec_size(class), data))),
            r is Ok ==> *final(offset) == *old(offset) + Self::spec_size(class)
                 && r->Ok_0 == Self::spec_decode(endian.spec_is_little(), class, data@, *old(offset) as int),
            r is Err ==> *old(offset) <= *final(offset) <= *old(offset) + Self::spec_size(class),
    ;

    /// Returns the expected size of the type being parsed for the given ELF class
    fn size_for(class: Class) -> (r: usize) ensures r == Self::spec_size(class), r > 0;

    /// Checks whether the given entsize matches what we need to parse this type
    ///
    /// Returns a ParseError for bad/unexpected entsizes that don't match what this type parses.
    fn validate_entsize(class: Class, entsize: usize) -> Result<usize, ParseError> {
        let expected = Self::size_for(class);
        match entsize == expected {
            true => Ok(entsize),
            false => Err(ParseError::BadEntsize((entsize as u64, expected as u64))),
        }
    }
}/// Encapsulates the contents of an ELF Section Header
///
/// This is a Rust-native type that represents a Section Header that is bit-width-agnostic.
#[derive(Copy, Clone, Debug, PartialEq, Eq)]
pub struct SectionHeader {
    /// Section Name
    pub sh_name: u32,
    /// Section Type
    pub sh_type: u32,
    /// Section Flags
    pub sh_flags: u64,
    /// in-memory address where this section is loaded
    pub sh_addr: u64,
    /// Byte-offset into the file where this section starts
    pub sh_offset: u64,
    /// Section size in bytes
    pub sh_size: u64,
    /// Defined by section type
    pub sh_link: u32,
    /// Defined by section type
    pub sh_info: u32,
    /// address alignment
    pub sh_addralign: u64,
    /// size of an entry if section data is an array of entries
    pub sh_entsize: u64,
}

pub open spec fn fld(little: bool, w: Seq<u8>, off: int, n: int) -> nat { uval(little, w.subrange(off, off + n)) }
impl ParseAt for SectionHeader {
    open spec fn spec_size(class: Class) -> nat { match class { Class::ELF32 => 40, Class::ELF64 => 64 } }
    proof fn lemma_size_pos(class: Class) {}
    open spec fn spec_accepts(little: bool, class: Class, w: Seq<u8>) -> bool { true }
    open spec fn spec_decode(little: bool, class: Class, w: Seq<u8>, b: int) -> Self {
        match class {
            Class::ELF32 => SectionHeader {
                sh_name: fld(little, w, b + 0, 4) as u32, sh_type: fld(little, w, b + 4, 4) as u32, sh_flags: fld(little, w, b + 8, 4) as u64,
                sh_addr: fld(little, w, b + 12, 4) as u64, sh_offset: fld(little, w, b + 16, 4) as u64, sh_size: fld(little, w, b + 20, 4) as u64,
                sh_link: fld(little, w, b + 24, 4) as u32, sh_info: fld(little, w, b + 28, 4) as u32, sh_addralign: fld(little, w, b + 32, 4) as u64,
                sh_entsize: fld(little, w, b + 36, 4) as u64 },
            Class::ELF64 => SectionHeader {
                sh_name: fld(little, w, b + 0, 4) as u32, sh_type: fld(little, w, b + 4, 4) as u32, sh_flags: fld(little, w, b + 8, 8) as u64,
                sh_addr: fld(little, w, b + 16, 8) as u64, sh_offset: fld(little, w, b + 24, 8) as u64, sh_size: fld(little, w, b + 32, 8) as u64,
                sh_link: fld(little, w, b + 40, 4) as u32, sh_info: fld(little, w, b + 44, 4) as u32, sh_addralign: fld(little, w, b + 48, 8) as u64,
                sh_entsize: fld(little, w, b + 56, 8) as u64 },
        }
    }

    fn parse_at<E: EndianParse>(
        endian: E,
        class: Class,
        offset: &mut usize,
        data: &[u8],
    ) -> Result<Self, ParseError> {
        match class {
            Class::ELF32 => Ok(SectionHeader {
                sh_name: endian.parse_u32_at(offset, data)?,
                sh_type: endian.parse_u32_at(offset, data)?,
                sh_flags: endian.parse_u32_at(offset, data)? as u64,
                sh_addr: endian.parse_u32_at(offset, data)? as u64,
                sh_offset: endian.parse_u32_at(offset, data)? as u64,
                sh_size: endian.parse_u32_at(offset, data)? as u64,
                sh_link: endian.parse_u32_at(offset, data)?,
                sh_info: endian.parse_u32_at(offset, data)?,
                sh_addralign: endian.parse_u32_at(offset, data)? as u64,
                sh_entsize: endian.parse_u32_at(offset, data)? as u64,
            }),
            Class::ELF64 => Ok(SectionHeader {
                sh_name: endian.parse_u32_at(offset, data)?,
                sh_type: endian.parse_u32_at(offset, data)?,
                sh_flags: endian.parse_u64_at(offset, data)?,
                sh_addr: endian.parse_u64_at(offset, data)?,
                sh_offset: endian.parse_u64_at(offset, data)?,
                sh_size: endian.parse_u64_at(offset, data)?,
                sh_link: endian.parse_u32_at(offset, data)?,
                sh_info: endian.parse_u32_at(offset, data)?,
                sh_addralign: endian.parse_u64_at(offset, data)?,
                sh_entsize: endian.parse_u64_at(offset, data)?,
            }),
        }
    }

    #[inline]
    fn size_for(class: Class) -> usize {
        match class {
            Class::ELF32 => 40,
            Class::ELF64 => 64,
        }
    }
}

impl SectionHeader {
    /// Helper method which uses checked integer math to get a tuple of (start,end) for
    /// this SectionHeader's (sh_offset, sh_offset + sh_size)
    pub(crate) fn get_data_range(&self) -> Result<(usize, usize), ParseError> {
        let start: usize = self.sh_offset.try_into()?;
        let size: usize = self.sh_size.try_into()?;
        let end = start.checked_add(size).ok_or(ParseError::IntegerOverflow)?;
        Ok((start, end))
    }
}
/// Lazy-parsing iterator which wraps bytes and parses out a `P: ParseAt` on each `next()`
#[derive(Debug)]
pub struct ParsingIterator<'data, E: EndianParse, P: ParseAt> {
    endian: E,
    class: Class,
    data: &'data [u8],
    offset: usize,
    // This struct doesn't technically own a P, but it yields them
    // as it iterates
    pd: PhantomData<&'data P>,
}

impl<'data, E: EndianParse, P: ParseAt> ParsingIterator<'data, E, P> {
    pub closed spec fn sdata(&self) -> &'data [u8] { self.data }
    pub closed spec fn soffset(&self) -> usize { self.offset }
    pub closed spec fn sclass(&self) -> Class { self.class }
    pub closed spec fn sendian(&self) -> E { self.endian }

    pub fn new(endian: E, class: Class, data: &'data [u8]) -> Self {
        ParsingIterator {
            endian,
            class,
            data,
            offset: 0,
            pd: PhantomData,
        }
    }
}

impl<E: EndianParse, P: ParseAt> vstd::std_specs::iter::IteratorSpecImpl for ParsingIterator<'_, E, P> {
    open spec fn obeys_prophetic_iter_laws(&self) -> bool { false }
    uninterp spec fn remaining(&self) -> Seq<P>;
    uninterp spec fn will_return_none(&self) -> bool;
    uninterp spec fn decrease(&self) -> Option<nat>;
    uninterp spec fn peek(&self, i: int) -> Option<P>;
}
impl<E: EndianParse, P: ParseAt> Iterator for ParsingIterator<'_, E, P> {
    type Item = P;
    fn next(&mut self) -> (r: Option<Self::Item>)
        ensures
            final(self).sdata() == old(self).sdata(), final(self).sclass() == old(self).sclass(), final(self).sendian() == old(self).sendian(),
            r is Some <==> (old(self).sdata()@.len() > 0 && read_ok(old(self).soffset(), P::spec_size(old(self).sclass()), old(self).sdata())
                 && P::spec_accepts(old(self).sendian().spec_is_little(), old(self).sclass(), window(old(self).soffset(), P::spec_size(old(self).sclass()), old(self).sdata()))),
            r is Some ==> final(self).soffset() == old(self).soffset() + P::spec_size(old(self).sclass())
                 && r->Some_0 == P::spec_decode(old(self).sendian().spec_is_little(), old(self).sclass(), old(self).sdata()@, old(self).soffset() as int),
            r is None ==> final(self).soffset() >= old(self).soffset(),
    {
        if self.data.is_empty() {
            return None;
        }

        Self::Item::parse_at(self.endian, self.class, &mut self.offset, self.data).ok()
    }
}

/// Lazy-parsing table which wraps bytes and parses out a `P: ParseAt` at a given index into
/// the table on each `get()`.
#[derive(Debug, Clone, Copy)]
pub struct ParsingTable<'data, E: EndianParse, P: ParseAt> {
    endian: E,
    class: Class,
    data: &'data [u8],
    // This struct doesn't technically own a P, but it yields them
    pd: PhantomData<&'data P>,
}

impl<'data, E: EndianParse, P: ParseAt> ParsingTable<'data, E, P> {
    pub closed spec fn sdata(&self) -> &'data [u8] { self.data }
    pub closed spec fn sclass(&self) -> Class { self.class }
    pub closed spec fn sendian(&self) -> E { self.endian }
    pub open spec fn slen(&self) -> nat { self.sdata()@.len() / P::spec_size(self.sclass()) }

    pub fn new(endian: E, class: Class, data: &'data [u8]) -> Self {
        ParsingTable {
            endian,
            class,
            data,
            pd: PhantomData,
        }
    }

    /// Get a lazy-parsing iterator for the table's bytes
    pub fn iter(&self) -> ParsingIterator<'data, E, P> {
        ParsingIterator::new(self.endian, self.class, self.data)
    }

    /// Returns the number of elements of type P in the table.
    pub fn len(&self) -> (r: usize) ensures r == self.slen() {
        self.data.len() / P::size_for(self.class)
    }

    /// Returns whether the table is empty (contains zero elements).
    pub fn is_empty(&self) -> (r: bool) ensures r == (self.slen() == 0) {
        self.len() == 0
    }

    /// Parse the element at `index` in the table.
    pub fn get(&self, index: usize) -> (r: Result<P, ParseError>)
        ensures
            r is Ok <==> (index < self.slen() && P::spec_accepts(self.sendian().spec_is_little(), self.sclass(), self.sdata()@.subrange(index * P::spec_size(self.sclass()), index * P::spec_size(self.sclass()) + P::spec_size(self.sclass())))),
            r is Ok ==> r->Ok_0 == P::spec_decode(self.sendian().spec_is_little(), self.sclass(), self.sdata()@, index * P::spec_size(self.sclass())),
    {
        proof { P::lemma_size_pos(self.sclass()); lemma_index_in_table(index as nat, P::spec_size(self.sclass()), self.sdata()@.len()); }
        if self.data.is_empty() {
            return Err(ParseError::BadOffset(index as u64));
        }

        let entsize = P::size_for(self.class);
        let mut start = index
            .checked_mul(entsize)
            .ok_or(ParseError::IntegerOverflow)?;
        if start > self.data.len() {
            return Err(ParseError::BadOffset(index as u64));
        }

        P::parse_at(self.endian, self.class, &mut start, self.data)
    }
}

impl<'data, E: EndianParse, P: ParseAt> IntoIterator for ParsingTable<'data, E, P> {
    type IntoIter = ParsingIterator<'data, E, P>;
    type Item = P;

    fn into_iter(self) -> Self::IntoIter {
        ParsingIterator::new(self.endian, self.class, self.data)
    }
}

// Simple convenience extension trait to wrap get() with .ok_or(SliceReadError)
pub(crate) trait ReadBytesExt<'data> {
    fn get_bytes(self, range: Range<usize>) -> Result<&'data [u8], ParseError>;
}

impl<'data> ReadBytesExt<'data> for &'data [u8] {
    fn get_bytes(self, range: Range<usize>) -> Result<&'data [u8], ParseError> {
        let start = range.start;
        let end = range.end;
        self.get(range)
            .ok_or(ParseError::SliceReadError((start, end)))
    }
}
global size_of usize == 8;
pub mod abi { pub const VER_DEF_CURRENT: u16 = 1; }
#[derive(Debug, PartialEq, Eq)]
pub struct VerDef {
    /// Version information flag bitmask.
    pub vd_flags: u16,
    /// VersionIndex value referencing the SHT_GNU_VERSYM section.
    pub vd_ndx: u16,
    /// Number of associated verdaux array entries.
    pub vd_cnt: u16,
    /// Version name hash value (ELF hash function).
    pub vd_hash: u32,
    /// Offset in bytes to a corresponding entry in an array of VerDefAux structures.
    vd_aux: u32,
    /// Offset to the next VerDef entry, in bytes.
    vd_next: u32,
}

impl ParseAt for VerDef {
    open spec fn spec_size(class: Class) -> nat { 20 }
    proof fn lemma_size_pos(class: Class) {}
    open spec fn spec_accepts(little: bool, class: Class, w: Seq<u8>) -> bool { uval(little, w.subrange(0, 2)) == 1 }
    closed spec fn spec_decode(little: bool, class: Class, w: Seq<u8>, b: int) -> Self {
        VerDef { vd_flags: fld(little, w, b + 2, 2) as u16, vd_ndx: fld(little, w, b + 4, 2) as u16, vd_cnt: fld(little, w, b + 6, 2) as u16,
                 vd_hash: fld(little, w, b + 8, 4) as u32, vd_aux: fld(little, w, b + 12, 4) as u32, vd_next: fld(little, w, b + 16, 4) as u32 }
    }

    fn parse_at<E: EndianParse>(
        endian: E,
        _class: Class,
        offset: &mut usize,
        data: &[u8],
    ) -> Result<Self, ParseError> {
        let vd_version = endian.parse_u16_at(offset, data)?;
        if vd_version != abi::VER_DEF_CURRENT {
            return Err(ParseError::UnsupportedVersion((
                vd_version as u64,
                abi::VER_DEF_CURRENT as u64,
            )));
        }

        Ok(VerDef {
            vd_flags: endian.parse_u16_at(offset, data)?,
            vd_ndx: endian.parse_u16_at(offset, data)?,
            vd_cnt: endian.parse_u16_at(offset, data)?,
            vd_hash: endian.parse_u32_at(offset, data)?,
            vd_aux: endian.parse_u32_at(offset, data)?,
            vd_next: endian.parse_u32_at(offset, data)?,
        })
    }

    #[inline]
    fn size_for(_class: Class) -> usize {
        ELFVERDEFSIZE
    }
}

const ELFVERDEFSIZE: usize = 20;

#[derive(Debug, Clone, Copy)]
pub struct VerDefIterator<'data, E: EndianParse> {
    endian: E,
    class: Class,
    /// The number of entries in this iterator is given by the .dynamic DT_VERDEFNUM entry
    /// and also in the .gnu.version_d section header's sh_info field.
    count: u64,
    data: &'data [u8],
    offset: usize,
}

impl<'data, E: EndianParse> VerDefIterator<'data, E> {
    pub fn new(
        endian: E,
        class: Class,
        count: u64,
        starting_offset: usize,
        data: &'data [u8],
    ) -> Self {
        VerDefIterator {
            endian,
            class,
            count,
            data,
            offset: starting_offset,
        }
    }
}

impl<'data, E: EndianParse> vstd::std_specs::iter::IteratorSpecImpl for VerDefIterator<'data, E> {
    open spec fn obeys_prophetic_iter_laws(&self) -> bool { false }
    uninterp spec fn remaining(&self) -> Seq<(VerDef, VerDefAuxIterator<'data, E>)>;
    uninterp spec fn will_return_none(&self) -> bool;
    uninterp spec fn decrease(&self) -> Option<nat>;
    uninterp spec fn peek(&self, i: int) -> Option<(VerDef, VerDefAuxIterator<'data, E>)>;
}
impl<'data, E: EndianParse> Iterator for VerDefIterator<'data, E> {
    type Item = (VerDef, VerDefAuxIterator<'data, E>);
    fn next(&mut self) -> Option<Self::Item> {
        if self.data.is_empty() || self.count == 0 {
            return None;
        }

        let mut start = self.offset;
        let vd = VerDef::parse_at(self.endian, self.class, &mut start, self.data).ok()?;
        let vda_iter = VerDefAuxIterator::new(
            self.endian,
            self.class,
            vd.vd_cnt,
            self.offset + vd.vd_aux as usize,
            self.data,
        );

        // If offset overflows, silently end iteration
        match self.offset.checked_add(vd.vd_next as usize) {
            Some(new_off) => self.offset = new_off,
            None => self.count = 0,
        }
        self.count -= 1;

        // Silently end iteration early if the next link stops pointing somewhere new
        // TODO: Make this an error condition by allowing the iterator to yield a ParseError
        if self.count > 0 && vd.vd_next == 0 {
            self.count = 0
        }
        Some((vd, vda_iter))
    }
}

/// Version Definition Auxiliary Entries from the .gnu.version_d section
#[derive(Debug, PartialEq, Eq)]
pub struct VerDefAux {
    /// Offset to the version or dependency name string in the linked string table, in bytes.
    pub vda_name: u32,
    /// Offset to the next VerDefAux entry, in bytes.
    vda_next: u32,
}

impl ParseAt for VerDefAux {
    open spec fn spec_size(class: Class) -> nat { 8 }
    proof fn lemma_size_pos(class: Class) {}
    open spec fn spec_accepts(little: bool, class: Class, w: Seq<u8>) -> bool { true }
    closed spec fn spec_decode(little: bool, class: Class, w: Seq<u8>, b: int) -> Self {
        VerDefAux { vda_name: fld(little, w, b, 4) as u32, vda_next: fld(little, w, b + 4, 4) as u32 }
    }

    fn parse_at<E: EndianParse>(
        endian: E,
        _class: Class,
        offset: &mut usize,
        data: &[u8],
    ) -> Result<Self, ParseError> {
        Ok(VerDefAux {
            vda_name: endian.parse_u32_at(offset, data)?,
            vda_next: endian.parse_u32_at(offset, data)?,
        })
    }

    #[inline]
    fn size_for(_class: Class) -> usize {
        8
    }
}

#[derive(Debug)]
pub struct VerDefAuxIterator<'data, E: EndianParse> {
    endian: E,
    class: Class,
    count: u16,
    data: &'data [u8],
    offset: usize,
}

impl<'data, E: EndianParse> VerDefAuxIterator<'data, E> {
    pub fn new(
        endian: E,
        class: Class,
        count: u16,
        starting_offset: usize,
        data: &'data [u8],
    ) -> Self {
        VerDefAuxIterator {
            endian,
            class,
            count,
            data,
            offset: starting_offset,
        }
    }
}

impl<E: EndianParse> vstd::std_specs::iter::IteratorSpecImpl for VerDefAuxIterator<'_, E> {
    open spec fn obeys_prophetic_iter_laws(&self) -> bool { false }
    uninterp spec fn remaining(&self) -> Seq<VerDefAux>;
    uninterp spec fn will_return_none(&self) -> bool;
    uninterp spec fn decrease(&self) -> Option<nat>;
    uninterp spec fn peek(&self, i: int) -> Option<VerDefAux>;
}
impl<E: EndianParse> Iterator for VerDefAuxIterator<'_, E> {
    type Item = VerDefAux;
    fn next(&mut self) -> Option<Self::Item> {
        if self.data.is_empty() || self.count == 0 {
            return None;
        }

        // N.B. This offset handling is maybe unnecessary, but faithful to the
        // spec. As far as I've observed, VerDefAux entries for a VerDef are all
        // encoded sequentially after the VerDef, so we could likely just
        // use the normal pattern here and pass in &mut self.offset here.
        //
        // The spec claims that "The section shall contain an array of
        // Elfxx_Verdef structures, optionally followed by an array of
        // Elfxx_Verdaux structures." This reads a bit ambiguously
        // (is there one big array of Verdefs followed by one big array of
        // Verdauxs?). If so, the vd_next and vda_next links seem unnecessary
        // given the vd_cnt field. In practice, it appears that all the VerDefAux
        // fields for a given VerDef are sequentially following the VerDef, meaning
        // they're contiguous, but intersersed. The _next fields could theoretically
        // give non-contiguous linked-list-like configurations, though (but only linking
        // forward, not backward, since the link is a u32).
        //
        // The vd_next and vda_next fields are also not "pointers" i.e. offsets from
        // the start of the section, but rather "increments" in telling how far to
        // advance from where you just read the containing struct for where you should
        // read the next. Given the sequentially-following nature described, these vd_next
        // and vda_next fields end up being 0x14 and 0x8 (the size of the VerDef and
        // VerDefAux structs).
        //
        // So observationally, we could likely get away with using self.offset and count here
        // and ignoring the vda_next field, but that'd break things if they weren't contiguous.
        let mut start = self.offset;
        let vda = VerDefAux::parse_at(self.endian, self.class, &mut start, self.data).ok()?;

        // If offset overflows, silently end iteration
        match self.offset.checked_add(vda.vda_next as usize) {
            Some(new_off) => self.offset = new_off,
            None => self.count = 0,
        }
        self.count -= 1;

        // Silently end iteration early if the next link stops pointing somewhere new
        // TODO: Make this an error condition by allowing the iterator to yield a ParseError
        if self.count > 0 && vda.vda_next == 0 {
            self.count = 0
        }
        Some(vda)
    }
}
}
fn main(){}
