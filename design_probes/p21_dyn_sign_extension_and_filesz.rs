use vstd::prelude::*;
use core::{marker::PhantomData, ops::Range};
verus! {
#[verifier::external_type_specification]
#[verifier::external_body]
pub struct ExTryFromSliceError(core::array::TryFromSliceError);

#[verifier::external_type_specification]
#[verifier::external_body]
pub struct ExUtf8Error(core::str::Utf8Error);
pub enum ParseError {
    BadMagic([u8; 4]),
    UnsupportedElfClass(u8),
    UnsupportedElfEndianness(u8),
    UnsupportedVersion((u64, u64)),
    BadOffset(u64),
    StringTableMissingNul(u64),
    BadEntsize((u64, u64)),
    UnexpectedSectionType((u32, u32)),
    UnexpectedSegmentType((u32, u32)),
    UnexpectedAlignment(usize),
    SliceReadError((usize, usize)),
    IntegerOverflow,
    Utf8Error(core::str::Utf8Error),
    TryFromSliceError(core::array::TryFromSliceError),
    TryFromIntError(core::num::TryFromIntError),
}
impl From<core::num::TryFromIntError> for ParseError {
    #[verifier::external_body]
    fn from(err: core::num::TryFromIntError) -> Self {
        ParseError::TryFromIntError(err)
    }
}
impl vstd::std_specs::convert::FromSpecImpl<core::num::TryFromIntError> for ParseError {
    open spec fn obeys_from_spec() -> bool { true }
    open spec fn from_spec(v: core::num::TryFromIntError) -> Self { ParseError::TryFromIntError(v) }
}
impl From<core::array::TryFromSliceError> for ParseError {
    #[verifier::external_body]
    fn from(err: core::array::TryFromSliceError) -> Self {
        ParseError::TryFromSliceError(err)
    }
}
impl vstd::std_specs::convert::FromSpecImpl<core::array::TryFromSliceError> for ParseError {
    open spec fn obeys_from_spec() -> bool { true }
    open spec fn from_spec(v: core::array::TryFromSliceError) -> Self { ParseError::TryFromSliceError(v) }
}

// ---- spec of byte order
pub open spec fn le_val(s: Seq<u8>) -> nat decreases s.len() {
    if s.len() == 0 { 0 } else { s[0] as nat + 256 * le_val(s.drop_first()) }
}
pub open spec fn be_val(s: Seq<u8>) -> nat decreases s.len() {
    if s.len() == 0 { 0 } else { be_val(s.drop_last()) * 256 + s.last() as nat }
}
pub open spec fn uval(little: bool, s: Seq<u8>) -> nat { if little { le_val(s) } else { be_val(s) } }
// two's complement
pub open spec fn sval(little: bool, s: Seq<u8>) -> int {
    let u = uval(little, s) as int; let m = pow256(s.len()) as int;
    if 2*u >= m { u - m } else { u }
}
pub open spec fn pow256(n: nat) -> nat decreases n { if n == 0 { 1 } else { 256 * pow256((n-1) as nat) } }

#[verifier::external_body]
fn shim_u16_from_le_bytes(b: [u8; 2]) -> (r: u16) ensures r as nat == le_val(b@) { u16::from_le_bytes(b) }
#[verifier::external_body]
fn shim_u16_from_be_bytes(b: [u8; 2]) -> (r: u16) ensures r as nat == be_val(b@) { u16::from_be_bytes(b) }
#[verifier::external_body]
fn shim_i64_from_le_bytes(b: [u8; 8]) -> (r: i64) ensures r as int == sval(true, b@) { i64::from_le_bytes(b) }
#[verifier::external_body]
fn shim_i64_from_be_bytes(b: [u8; 8]) -> (r: i64) ensures r as int == sval(false, b@) { i64::from_be_bytes(b) }
#[verifier::external_body]
fn shim_i32_from_le_bytes(b: [u8; 4]) -> (r: i32) ensures r as int == sval(true, b@) { i32::from_le_bytes(b) }
#[verifier::external_body]
fn shim_i32_from_be_bytes(b: [u8; 4]) -> (r: i32) ensures r as int == sval(false, b@) { i32::from_be_bytes(b) }

#[verifier::external_body]
fn shim_u32_from_le_bytes(b: [u8; 4]) -> (r: u32) ensures r as nat == le_val(b@) { u32::from_le_bytes(b) }
#[verifier::external_body]
fn shim_u32_from_be_bytes(b: [u8; 4]) -> (r: u32) ensures r as nat == be_val(b@) { u32::from_be_bytes(b) }
#[verifier::external_body]
fn shim_u64_from_le_bytes(b: [u8; 8]) -> (r: u64) ensures r as nat == le_val(b@) { u64::from_le_bytes(b) }
#[verifier::external_body]
fn shim_u64_from_be_bytes(b: [u8; 8]) -> (r: u64) ensures r as nat == be_val(b@) { u64::from_be_bytes(b) }
#[verifier::external_body]
fn shim_u8_from_le_bytes(b: [u8; 1]) -> (r: u8) ensures r as nat == le_val(b@) { u8::from_le_bytes(b) }
#[verifier::external_body]
fn shim_u8_from_be_bytes(b: [u8; 1]) -> (r: u8) ensures r as nat == be_val(b@) { u8::from_be_bytes(b) }
pub assume_specification<'a, T: Copy, const N: usize>[ <[T; N] as TryFrom<&'a [T]>>::try_from ](s: &[T]) -> (r: Result<[T; N], core::array::TryFromSliceError>)
    ensures s@.len() == N ==> (r is Ok && r->Ok_0@ == s@),
            s@.len() != N ==> r is Err;

pub mod ax { use vstd::prelude::*;
#[verifier::external_body]
pub broadcast proof fn axiom_slice_len_bound(s: &[u8]) ensures #[trigger] s@.len() <= isize::MAX {}
}
broadcast use ax::axiom_slice_len_bound;

pub proof fn lemma_index_in_table(i: nat, sz: nat, len: nat)
    requires sz > 0
    ensures i < len / sz <==> i * sz + sz <= len
{
    vstd::arithmetic::div_mod::lemma_fundamental_div_mod(len as int, sz as int);
    vstd::arithmetic::div_mod::lemma_mod_bound(len as int, sz as int);
    let q = len / sz;
    if i < q {
        assert((i + 1) * sz <= q * sz) by (nonlinear_arith) requires i + 1 <= q, sz > 0;
        assert((i + 1) * sz == i * sz + sz) by (nonlinear_arith);
        assert(q * sz == sz * q) by (nonlinear_arith);
    } else {
        assert(q * sz <= i * sz) by (nonlinear_arith) requires q <= i, sz > 0;
        assert(q * sz == sz * q) by (nonlinear_arith);
    }
}
pub open spec fn read_ok(off: usize, w: nat, data: &[u8]) -> bool { off + w <= data@.len() }
pub open spec fn window(off: usize, w: nat, data: &[u8]) -> Seq<u8> { data@.subrange(off as int, off + w) }

pub trait EndianParse: Clone + Copy + Default + PartialEq + Eq {
    spec fn spec_is_little(self) -> bool;

    fn parse_u16_at(self, offset: &mut usize, data: &[u8]) -> (r: Result<u16, ParseError>)
        ensures
            read_ok(*old(offset), 2, data) <==> r is Ok,
            r is Ok ==> *final(offset) == *old(offset) + 2 && r->Ok_0 as nat == uval(self.spec_is_little(), window(*old(offset), 2, data)),
            r is Err ==> *final(offset) == *old(offset),
    {
        let end = (*offset)
            .checked_add(2)
            .ok_or(ParseError::IntegerOverflow)?;

        let buf: [u8; 2] = data
            .get(*offset..end)
            .ok_or(ParseError::SliceReadError((*offset, end)))?
            .try_into()?;

        *offset = end;

        if self.is_little() {
            Ok(shim_u16_from_le_bytes(buf))
        } else {
            Ok(shim_u16_from_be_bytes(buf))
        }
    }
    fn parse_u32_at(self, offset: &mut usize, data: &[u8]) -> (r: Result<u32, ParseError>)
        ensures
            read_ok(*old(offset), 4, data) <==> r is Ok,
            r is Ok ==> *final(offset) == *old(offset) + 4 && r->Ok_0 as nat == uval(self.spec_is_little(), window(*old(offset), 4, data)),
            r is Err ==> *final(offset) == *old(offset),
    {
        let end = (*offset)
            .checked_add(4)
            .ok_or(ParseError::IntegerOverflow)?;

        let buf: [u8; 4] = data
            .get(*offset..end)
            .ok_or(ParseError::SliceReadError((*offset, end)))?
            .try_into()?;

        *offset = end;

        if self.is_little() {
            Ok(shim_u32_from_le_bytes(buf))
        } else {
            Ok(shim_u32_from_be_bytes(buf))
        }
    }
    fn parse_u64_at(self, offset: &mut usize, data: &[u8]) -> (r: Result<u64, ParseError>)
        ensures
            read_ok(*old(offset), 8, data) <==> r is Ok,
            r is Ok ==> *final(offset) == *old(offset) + 8 && r->Ok_0 as nat == uval(self.spec_is_little(), window(*old(offset), 8, data)),
            r is Err ==> *final(offset) == *old(offset),
    {
        let end = (*offset)
            .checked_add(8)
            .ok_or(ParseError::IntegerOverflow)?;

        let buf: [u8; 8] = data
            .get(*offset..end)
            .ok_or(ParseError::SliceReadError((*offset, end)))?
            .try_into()?;

        *offset = end;

        if self.is_little() {
            Ok(shim_u64_from_le_bytes(buf))
        } else {
            Ok(shim_u64_from_be_bytes(buf))
        }
    }
    fn parse_u8_at(self, offset: &mut usize, data: &[u8]) -> (r: Result<u8, ParseError>)
        ensures
            read_ok(*old(offset), 1, data) <==> r is Ok,
            r is Ok ==> *final(offset) == *old(offset) + 1 && r->Ok_0 as nat == uval(self.spec_is_little(), window(*old(offset), 1, data)),
            r is Err ==> *final(offset) == *old(offset),
    {
        let end = (*offset)
            .checked_add(1)
            .ok_or(ParseError::IntegerOverflow)?;

        let buf: [u8; 1] = data
            .get(*offset..end)
            .ok_or(ParseError::SliceReadError((*offset, end)))?
            .try_into()?;

        *offset = end;

        if self.is_little() {
            Ok(shim_u8_from_le_bytes(buf))
        } else {
            Ok(shim_u8_from_be_bytes(buf))
        }
    }
    fn parse_i32_at(self, offset: &mut usize, data: &[u8]) -> (r: Result<i32, ParseError>)
        ensures
            read_ok(*old(offset), 4, data) <==> r is Ok,
            r is Ok ==> *final(offset) == *old(offset) + 4 && r->Ok_0 as int == sval(self.spec_is_little(), window(*old(offset), 4, data)),
            r is Err ==> *final(offset) == *old(offset),
    {
        let end = (*offset)
            .checked_add(4)
            .ok_or(ParseError::IntegerOverflow)?;

        let buf: [u8; 4] = data
            .get(*offset..end)
            .ok_or(ParseError::SliceReadError((*offset, end)))?
            .try_into()?;

        *offset = end;

        if self.is_little() {
            Ok(shim_i32_from_le_bytes(buf))
        } else {
            Ok(shim_i32_from_be_bytes(buf))
        }
    }
    fn parse_i64_at(self, offset: &mut usize, data: &[u8]) -> (r: Result<i64, ParseError>)
        ensures
            read_ok(*old(offset), 8, data) <==> r is Ok,
            r is Ok ==> *final(offset) == *old(offset) + 8 && r->Ok_0 as int == sval(self.spec_is_little(), window(*old(offset), 8, data)),
            r is Err ==> *final(offset) == *old(offset),
    {
        let end = (*offset)
            .checked_add(8)
            .ok_or(ParseError::IntegerOverflow)?;

        let buf: [u8; 8] = data
            .get(*offset..end)
            .ok_or(ParseError::SliceReadError((*offset, end)))?
            .try_into()?;

        *offset = end;

        if self.is_little() {
            Ok(shim_i64_from_le_bytes(buf))
        } else {
            Ok(shim_i64_from_be_bytes(buf))
        }
    }

    fn from_ei_data(ei_data: u8) -> Result<Self, ParseError>;

    fn is_little(self) -> (r: bool) ensures r == self.spec_is_little();

    #[inline(always)]
    fn is_big(self) -> bool {
        !self.is_little()
    }
}

#[derive(Debug, Copy, Clone, PartialEq, Eq, Structural)]
pub enum Class {
    ELF32,
    ELF64,
}
pub trait ParseAt: Sized {
    /// Parse this type by using the given endian-awareness and ELF class layout.
    /// This is generic on EndianParse in order to allow users to optimize for
    /// their expectations of data layout. See EndianParse for more details.
    spec fn spec_size(class: Class) -> nat;
    proof fn lemma_size_pos(class: Class) ensures Self::spec_size(class) > 0;
    spec fn spec_accepts(little: bool, class: Class, w: Seq<u8>) -> bool;
    spec fn spec_decode(little: bool, class: Class, w: Seq<u8>, b: int) -> Self;
    fn parse_at<E: EndianParse>(
        endian: E,
        class: Class,
        offset: &mut usize,
        data: &[u8],
    ) -> (r: Result<Self, ParseError>)
        ensures
            r is Ok <==> (read_ok(*old(offset), Self::spec_size(class), data) && Self::spec_accepts(endian.spec_is_little(), class, window(*old(offset), Self::spec_size(class), data))),
            r is Ok ==> *final(offset) == *old(offset) + Self::spec_size(class)
                 && r->Ok_0 == Self::spec_decode(endian.spec_is_little(), class, data@, *old(offset) as int),
            r is Err ==> *old(offset) <= *final(offset) <= *old(offset) + Self::spec_size(class),
    ;

    /// Returns the expected size of the type being parsed for the given ELF class
    fn size_for(class: Class) -> (r: usize) ensures r == Self::spec_size(class), r > 0;

    /// Checks whether the given entsize matches what we need to parse this type
    ///
    /// Returns a ParseError for bad/unexpected entsizes that don't match what this type parses.
    fn validate_entsize(class: Class, entsize: usize) -> (r: Result<usize, ParseError>)
        ensures r is Ok <==> entsize == Self::spec_size(class), r is Ok ==> r->Ok_0 == entsize
    {
        let expected = Self::size_for(class);
        match entsize == expected {
            true => Ok(entsize),
            false => Err(ParseError::BadEntsize((entsize as u64, expected as u64))),
        }
    }
}/// Encapsulates the contents of an ELF Section Header
///
/// This is a Rust-native type that represents a Section Header that is bit-width-agnostic.
#[derive(Copy, Clone, Debug, PartialEq, Eq)]
pub struct SectionHeader {
    /// Section Name
    pub sh_name: u32,
    /// Section Type
    pub sh_type: u32,
    /// Section Flags
    pub sh_flags: u64,
    /// in-memory address where this section is loaded
    pub sh_addr: u64,
    /// Byte-offset into the file where this section starts
    pub sh_offset: u64,
    /// Section size in bytes
    pub sh_size: u64,
    /// Defined by section type
    pub sh_link: u32,
    /// Defined by section type
    pub sh_info: u32,
    /// address alignment
    pub sh_addralign: u64,
    /// size of an entry if section data is an array of entries
    pub sh_entsize: u64,
}

pub open spec fn fld(little: bool, w: Seq<u8>, off: int, n: int) -> nat { uval(little, w.subrange(off, off + n)) }
impl ParseAt for SectionHeader {
    open spec fn spec_size(class: Class) -> nat { match class { Class::ELF32 => 40, Class::ELF64 => 64 } }
    proof fn lemma_size_pos(class: Class) {}
    open spec fn spec_accepts(little: bool, class: Class, w: Seq<u8>) -> bool { true }
    open spec fn spec_decode(little: bool, class: Class, w: Seq<u8>, b: int) -> Self {
        match class {
            Class::ELF32 => SectionHeader {
                sh_name: fld(little, w, b + 0, 4) as u32, sh_type: fld(little, w, b + 4, 4) as u32, sh_flags: fld(little, w, b + 8, 4) as u64,
                sh_addr: fld(little, w, b + 12, 4) as u64, sh_offset: fld(little, w, b + 16, 4) as u64, sh_size: fld(little, w, b + 20, 4) as u64,
                sh_link: fld(little, w, b + 24, 4) as u32, sh_info: fld(little, w, b + 28, 4) as u32, sh_addralign: fld(little, w, b + 32, 4) as u64,
                sh_entsize: fld(little, w, b + 36, 4) as u64 },
            Class::ELF64 => SectionHeader {
                sh_name: fld(little, w, b + 0, 4) as u32, sh_type: fld(little, w, b + 4, 4) as u32, sh_flags: fld(little, w, b + 8, 8) as u64,
                sh_addr: fld(little, w, b + 16, 8) as u64, sh_offset: fld(little, w, b + 24, 8) as u64, sh_size: fld(little, w, b + 32, 8) as u64,
                sh_link: fld(little, w, b + 40, 4) as u32, sh_info: fld(little, w, b + 44, 4) as u32, sh_addralign: fld(little, w, b + 48, 8) as u64,
                sh_entsize: fld(little, w, b + 56, 8) as u64 },
        }
    }

    fn parse_at<E: EndianParse>(
        endian: E,
        class: Class,
        offset: &mut usize,
        data: &[u8],
    ) -> Result<Self, ParseError> {
        match class {
            Class::ELF32 => Ok(SectionHeader {
                sh_name: endian.parse_u32_at(offset, data)?,
                sh_type: endian.parse_u32_at(offset, data)?,
                sh_flags: endian.parse_u32_at(offset, data)? as u64,
                sh_addr: endian.parse_u32_at(offset, data)? as u64,
                sh_offset: endian.parse_u32_at(offset, data)? as u64,
                sh_size: endian.parse_u32_at(offset, data)? as u64,
                sh_link: endian.parse_u32_at(offset, data)?,
                sh_info: endian.parse_u32_at(offset, data)?,
                sh_addralign: endian.parse_u32_at(offset, data)? as u64,
                sh_entsize: endian.parse_u32_at(offset, data)? as u64,
            }),
            Class::ELF64 => Ok(SectionHeader {
                sh_name: endian.parse_u32_at(offset, data)?,
                sh_type: endian.parse_u32_at(offset, data)?,
                sh_flags: endian.parse_u64_at(offset, data)?,
                sh_addr: endian.parse_u64_at(offset, data)?,
                sh_offset: endian.parse_u64_at(offset, data)?,
                sh_size: endian.parse_u64_at(offset, data)?,
                sh_link: endian.parse_u32_at(offset, data)?,
                sh_info: endian.parse_u32_at(offset, data)?,
                sh_addralign: endian.parse_u64_at(offset, data)?,
                sh_entsize: endian.parse_u64_at(offset, data)?,
            }),
        }
    }

    #[inline]
    fn size_for(class: Class) -> usize {
        match class {
            Class::ELF32 => 40,
            Class::ELF64 => 64,
        }
    }
}

impl SectionHeader {
    /// Helper method which uses checked integer math to get a tuple of (start,end) for
    /// this SectionHeader's (sh_offset, sh_offset + sh_size)
    pub(crate) fn get_data_range(&self) -> Result<(usize, usize), ParseError> {
        let start: usize = self.sh_offset.try_into()?;
        let size: usize = self.sh_size.try_into()?;
        let end = start.checked_add(size).ok_or(ParseError::IntegerOverflow)?;
        Ok((start, end))
    }
}
/// Lazy-parsing iterator which wraps bytes and parses out a `P: ParseAt` on each `next()`
#[derive(Debug)]
pub struct ParsingIterator<'data, E: EndianParse, P: ParseAt> {
    endian: E,
    class: Class,
    data: &'data [u8],
    offset: usize,
    // This struct doesn't technically own a P, but it yields them
    // as it iterates
    pd: PhantomData<&'data P>,
}

impl<'data, E: EndianParse, P: ParseAt> ParsingIterator<'data, E, P> {
    pub closed spec fn sdata(&self) -> &'data [u8] { self.data }
    pub closed spec fn soffset(&self) -> usize { self.offset }
    pub closed spec fn sclass(&self) -> Class { self.class }
    pub closed spec fn sendian(&self) -> E { self.endian }

    pub fn new(endian: E, class: Class, data: &'data [u8]) -> Self {
        ParsingIterator {
            endian,
            class,
            data,
            offset: 0,
            pd: PhantomData,
        }
    }
}

impl<E: EndianParse, P: ParseAt> vstd::std_specs::iter::IteratorSpecImpl for ParsingIterator<'_, E, P> {
    open spec fn obeys_prophetic_iter_laws(&self) -> bool { false }
    uninterp spec fn remaining(&self) -> Seq<P>;
    uninterp spec fn will_return_none(&self) -> bool;
    uninterp spec fn decrease(&self) -> Option<nat>;
    uninterp spec fn peek(&self, i: int) -> Option<P>;
}
impl<E: EndianParse, P: ParseAt> Iterator for ParsingIterator<'_, E, P> {
    type Item = P;
    fn next(&mut self) -> (r: Option<Self::Item>)
        ensures
            final(self).sdata() == old(self).sdata(), final(self).sclass() == old(self).sclass(), final(self).sendian() == old(self).sendian(),
            r is Some <==> (old(self).sdata()@.len() > 0 && read_ok(old(self).soffset(), P::spec_size(old(self).sclass()), old(self).sdata())
                 && P::spec_accepts(old(self).sendian().spec_is_little(), old(self).sclass(), window(old(self).soffset(), P::spec_size(old(self).sclass()), old(self).sdata()))),
            r is Some ==> final(self).soffset() == old(self).soffset() + P::spec_size(old(self).sclass())
                 && r->Some_0 == P::spec_decode(old(self).sendian().spec_is_little(), old(self).sclass(), old(self).sdata()@, old(self).soffset() as int),
            r is None ==> final(self).soffset() >= old(self).soffset(),
    {
        if self.data.is_empty() {
            return None;
        }

        Self::Item::parse_at(self.endian, self.class, &mut self.offset, self.data).ok()
    }
}

/// Lazy-parsing table which wraps bytes and parses out a `P: ParseAt` at a given index into
/// the table on each `get()`.
#[derive(Debug, Clone, Copy)]
pub struct ParsingTable<'data, E: EndianParse, P: ParseAt> {
    endian: E,
    class: Class,
    data: &'data [u8],
    // This struct doesn't technically own a P, but it yields them
    pd: PhantomData<&'data P>,
}

impl<'data, E: EndianParse, P: ParseAt> ParsingTable<'data, E, P> {
    pub closed spec fn sdata(&self) -> &'data [u8] { self.data }
    pub closed spec fn sclass(&self) -> Class { self.class }
    pub closed spec fn sendian(&self) -> E { self.endian }
    pub open spec fn slen(&self) -> nat { self.sdata()@.len() / P::spec_size(self.sclass()) }

    pub fn new(endian: E, class: Class, data: &'data [u8]) -> (r: Self)
        ensures r.sdata() == data, r.sclass() == class, r.sendian() == endian
    {
        ParsingTable {
            endian,
            class,
            data,
            pd: PhantomData,
        }
    }

    /// Get a lazy-parsing iterator for the table's bytes
    pub fn iter(&self) -> ParsingIterator<'data, E, P> {
        ParsingIterator::new(self.endian, self.class, self.data)
    }

    /// Returns the number of elements of type P in the table.
    pub fn len(&self) -> (r: usize) ensures r == self.slen() {
        self.data.len() / P::size_for(self.class)
    }

    /// Returns whether the table is empty (contains zero elements).
    pub fn is_empty(&self) -> (r: bool) ensures r == (self.slen() == 0) {
        self.len() == 0
    }

    /// Parse the element at `index` in the table.
    pub fn get(&self, index: usize) -> (r: Result<P, ParseError>)
        ensures
            r is Ok <==> (index < self.slen() && P::spec_accepts(self.sendian().spec_is_little(), self.sclass(), self.sdata()@.subrange(index * P::spec_size(self.sclass()), index * P::spec_size(self.sclass()) + P::spec_size(self.sclass())))),
            r is Ok ==> r->Ok_0 == P::spec_decode(self.sendian().spec_is_little(), self.sclass(), self.sdata()@, index * P::spec_size(self.sclass())),
    {
        proof { P::lemma_size_pos(self.sclass()); lemma_index_in_table(index as nat, P::spec_size(self.sclass()), self.sdata()@.len()); }
        if self.data.is_empty() {
            return Err(ParseError::BadOffset(index as u64));
        }

        let entsize = P::size_for(self.class);
        let mut start = index
            .checked_mul(entsize)
            .ok_or(ParseError::IntegerOverflow)?;
        if start > self.data.len() {
            return Err(ParseError::BadOffset(index as u64));
        }

        P::parse_at(self.endian, self.class, &mut start, self.data)
    }
}

impl<'data, E: EndianParse, P: ParseAt> IntoIterator for ParsingTable<'data, E, P> {
    type IntoIter = ParsingIterator<'data, E, P>;
    type Item = P;

    fn into_iter(self) -> Self::IntoIter {
        ParsingIterator::new(self.endian, self.class, self.data)
    }
}

// Simple convenience extension trait to wrap get() with .ok_or(SliceReadError)
pub(crate) trait ReadBytesExt<'data> {
    spec fn sview(self) -> Seq<u8>;
    fn get_bytes(self, range: Range<usize>) -> (r: Result<&'data [u8], ParseError>)
        ensures r is Ok <==> (range.start <= range.end && range.end <= self.sview().len()),
                r is Ok ==> r->Ok_0@ == self.sview().subrange(range.start as int, range.end as int);
}

impl<'data> ReadBytesExt<'data> for &'data [u8] {
    spec fn sview(self) -> Seq<u8> { self@ }
    fn get_bytes(self, range: Range<usize>) -> Result<&'data [u8], ParseError> {
        let start = range.start;
        let end = range.end;
        self.get(range)
            .ok_or(ParseError::SliceReadError((start, end)))
    }
}
global size_of usize == 8;
pub mod abi { pub const PN_XNUM: u16 = 0xffff; }
pub type SectionHeaderTable<'data, E> = ParsingTable<'data, E, SectionHeader>;
pub type SegmentTable<'data, E> = ParsingTable<'data, E, ProgramHeader>;
#[derive(Copy, Clone, Debug, PartialEq, Eq)]
pub struct FileHeader<E: EndianParse> {
    /// 32-bit vs 64-bit
    pub class: Class,
    // file byte order
    pub endianness: E,
    /// elf version
    pub version: u32,
    /// OS ABI
    pub osabi: u8,
    /// Version of the OS ABI
    pub abiversion: u8,
    /// ELF file type
    pub e_type: u16,
    /// Target machine architecture
    pub e_machine: u16,
    /// Virtual address of program entry point
    /// This member gives the virtual address to which the system first transfers control,
    /// thus starting the process. If the file has no associated entry point, this member holds zero.
    ///
    /// Note: Type is Elf32_Addr or Elf64_Addr which are either 4 or 8 bytes. We aren't trying to zero-copy
    /// parse the FileHeader since there's only one per file and its only ~45 bytes anyway, so we use
    /// u64 for the three Elf*_Addr and Elf*_Off fields here.
    pub e_entry: u64,
    /// This member holds the program header table's file offset in bytes. If the file has no program header
    /// table, this member holds zero.
    pub e_phoff: u64,
    /// This member holds the section header table's file offset in bytes. If the file has no section header
    /// table, this member holds zero.
    pub e_shoff: u64,
    /// This member holds processor-specific flags associated with the file. Flag names take the form EF_machine_flag.
    pub e_flags: u32,
    /// This member holds the ELF header's size in bytes.
    pub e_ehsize: u16,
    /// This member holds the size in bytes of one entry in the file's program header table; all entries are the same size.
    pub e_phentsize: u16,
    /// This member holds the number of entries in the program header table. Thus the product of e_phentsize and e_phnum
    /// gives the table's size in bytes. If a file has no program header table, e_phnum holds the value zero.
    pub e_phnum: u16,
    /// This member holds a section header's size in bytes. A section header is one entry in the section header table;
    /// all entries are the same size.
    pub e_shentsize: u16,
    /// This member holds the number of entries in the section header table. Thus the product of e_shentsize and e_shnum
    /// gives the section header table's size in bytes. If a file has no section header table, e_shnum holds the value zero.
    ///
    /// If the number of sections is greater than or equal to SHN_LORESERVE (0xff00), this member has the value zero and
    /// the actual number of section header table entries is contained in the sh_size field of the section header at index 0.
    /// (Otherwise, the sh_size member of the initial entry contains 0.)
    pub e_shnum: u16,
    /// This member holds the section header table index of the entry associated with the section name string table. If the
    /// file has no section name string table, this member holds the value SHN_UNDEF.
    ///
    /// If the section name string table section index is greater than or equal to SHN_LORESERVE (0xff00), this member has
    /// the value SHN_XINDEX (0xffff) and the actual index of the section name string table section is contained in the
    /// sh_link field of the section header at index 0. (Otherwise, the sh_link member of the initial entry contains 0.)
    pub e_shstrndx: u16,
}
#[derive(Copy, Clone, Debug, PartialEq, Eq)]
pub struct ProgramHeader {
    /// Program segment type
    pub p_type: u32,
    /// Offset into the ELF file where this segment begins
    pub p_offset: u64,
    /// Virtual adress where this segment should be loaded
    pub p_vaddr: u64,
    /// Physical address where this segment should be loaded
    pub p_paddr: u64,
    /// Size of this segment in the file
    pub p_filesz: u64,
    /// Size of this segment in memory
    pub p_memsz: u64,
    /// Flags for this segment
    pub p_flags: u32,
    /// file and memory alignment
    pub p_align: u64,
}

impl ParseAt for ProgramHeader {
    open spec fn spec_size(class: Class) -> nat { match class { Class::ELF32 => 32, Class::ELF64 => 56 } }
    proof fn lemma_size_pos(class: Class) {}
    open spec fn spec_accepts(little: bool, class: Class, w: Seq<u8>) -> bool { true }
    open spec fn spec_decode(little: bool, class: Class, w: Seq<u8>, b: int) -> Self {
        match class {
            Class::ELF32 => ProgramHeader { p_type: fld(little, w, b, 4) as u32, p_offset: fld(little, w, b + 4, 4) as u64, p_vaddr: fld(little, w, b + 8, 4) as u64,
                p_paddr: fld(little, w, b + 12, 4) as u64, p_filesz: fld(little, w, b + 16, 4) as u64, p_memsz: fld(little, w, b + 20, 4) as u64,
                p_flags: fld(little, w, b + 24, 4) as u32, p_align: fld(little, w, b + 28, 4) as u64 },
            Class::ELF64 => ProgramHeader { p_type: fld(little, w, b, 4) as u32, p_flags: fld(little, w, b + 4, 4) as u32, p_offset: fld(little, w, b + 8, 8) as u64,
                p_vaddr: fld(little, w, b + 16, 8) as u64, p_paddr: fld(little, w, b + 24, 8) as u64, p_filesz: fld(little, w, b + 32, 8) as u64,
                p_memsz: fld(little, w, b + 40, 8) as u64, p_align: fld(little, w, b + 48, 8) as u64 },
        }
    }

    fn parse_at<E: EndianParse>(
        endian: E,
        class: Class,
        offset: &mut usize,
        data: &[u8],
    ) -> Result<Self, ParseError> {
        if class == Class::ELF32 {
            return Ok(ProgramHeader {
                p_type: endian.parse_u32_at(offset, data)?,
                p_offset: endian.parse_u32_at(offset, data)? as u64,
                p_vaddr: endian.parse_u32_at(offset, data)? as u64,
                p_paddr: endian.parse_u32_at(offset, data)? as u64,
                p_filesz: endian.parse_u32_at(offset, data)? as u64,
                p_memsz: endian.parse_u32_at(offset, data)? as u64,
                p_flags: endian.parse_u32_at(offset, data)?,
                p_align: endian.parse_u32_at(offset, data)? as u64,
            });
        }

        // Note: 64-bit fields are in a different order
        let p_type = endian.parse_u32_at(offset, data)?;
        let p_flags = endian.parse_u32_at(offset, data)?;
        let p_offset = endian.parse_u64_at(offset, data)?;
        let p_vaddr = endian.parse_u64_at(offset, data)?;
        let p_paddr = endian.parse_u64_at(offset, data)?;
        let p_filesz = endian.parse_u64_at(offset, data)?;
        let p_memsz = endian.parse_u64_at(offset, data)?;
        let p_align = endian.parse_u64_at(offset, data)?;
        Ok(ProgramHeader {
            p_type,
            p_offset,
            p_vaddr,
            p_paddr,
            p_filesz,
            p_memsz,
            p_flags,
            p_align,
        })
    }

    #[inline]
    fn size_for(class: Class) -> usize {
        match class {
            Class::ELF32 => 32,
            Class::ELF64 => 56,
        }
    }
}

impl ProgramHeader {
    /// Helper method which uses checked integer math to get a tuple of (start, end) for
    /// the location in bytes for this ProgramHeader's data in the file.
    /// i.e. (p_offset, p_offset + p_filesz)
    pub(crate) fn get_file_data_range(&self) -> (r: Result<(usize, usize), ParseError>)
        ensures r is Ok <==> self.p_offset + self.p_filesz <= usize::MAX,
            r is Ok ==> r->Ok_0.0 == self.p_offset && r->Ok_0.1 == self.p_offset + self.p_filesz
    {
        let start: usize = self.p_offset.try_into()?;
        let size: usize = self.p_filesz.try_into()?;
        let end = start.checked_add(size).ok_or(ParseError::IntegerOverflow)?;
        Ok((start, end))
    }
}
pub open spec fn spec_shnum<E: EndianParse>(ehdr: &FileHeader<E>, d: Seq<u8>) -> nat {
    if ehdr.e_shnum != 0 { ehdr.e_shnum as nat }
    else { SectionHeader::spec_decode(ehdr.endianness.spec_is_little(), ehdr.class, d, ehdr.e_shoff as int).sh_size as nat }
}
fn find_shdrs<'data, E: EndianParse>(
    ehdr: &FileHeader<E>,
    data: &'data [u8],
) -> (r: Result<Option<SectionHeaderTable<'data, E>>, ParseError>)
    ensures
        ehdr.e_shoff == 0 ==> r is Ok && r->Ok_0 is None,
        ehdr.e_shoff != 0 && r is Ok ==> r->Ok_0 is Some && ({ let t = r->Ok_0->Some_0; let n = spec_shnum(ehdr, data@);
              ehdr.e_shentsize as nat == SectionHeader::spec_size(ehdr.class)
              && t.sclass() == ehdr.class && t.sendian() == ehdr.endianness
              && ehdr.e_shoff + n * SectionHeader::spec_size(ehdr.class) <= data@.len()
              && t.sdata()@ == data@.subrange(ehdr.e_shoff as int, ehdr.e_shoff + n * SectionHeader::spec_size(ehdr.class)) }),
        ehdr.e_shoff != 0 && ehdr.e_shentsize as nat != SectionHeader::spec_size(ehdr.class) ==> r is Err,
        ehdr.e_shoff != 0 && (ehdr.e_shnum != 0 || ehdr.e_shoff + SectionHeader::spec_size(ehdr.class) <= data@.len())
            && ehdr.e_shoff + spec_shnum(ehdr, data@) * SectionHeader::spec_size(ehdr.class) > data@.len() ==> r is Err,
{
    // It's Ok to have no section headers
    if ehdr.e_shoff == 0 {
        return Ok(None);
    }

    // If the number of sections is greater than or equal to SHN_LORESERVE (0xff00),
    // e_shnum is zero and the actual number of section header table entries
    // is contained in the sh_size field of the section header at index 0.
    let shoff: usize = ehdr.e_shoff.try_into()?;
    let mut shnum = ehdr.e_shnum as usize;
    if shnum == 0 {
        let mut offset = shoff;
        let shdr0 = SectionHeader::parse_at(ehdr.endianness, ehdr.class, &mut offset, data)?;
        shnum = shdr0.sh_size.try_into()?;
    }

    // Validate shentsize before trying to read the table so that we can error early for corrupted files
    let entsize = SectionHeader::validate_entsize(ehdr.class, ehdr.e_shentsize as usize)?;

    proof { assert(entsize * shnum == shnum * entsize) by (nonlinear_arith); }
    let size = entsize
        .checked_mul(shnum)
        .ok_or(ParseError::IntegerOverflow)?;
    let end = shoff.checked_add(size).ok_or(ParseError::IntegerOverflow)?;
    let buf = data.get_bytes(shoff..end)?;
    Ok(Some(SectionHeaderTable::new(
        ehdr.endianness,
        ehdr.class,
        buf,
    )))
}

/// Find the location (if any) of the program headers in the given data buffer and take a
/// subslice of their data and wrap it in a lazy-parsing SegmentTable.
fn find_phdrs<'data, E: EndianParse>(
    ehdr: &FileHeader<E>,
    data: &'data [u8],
) -> Result<Option<SegmentTable<'data, E>>, ParseError> {
    // It's Ok to have no program headers
    if ehdr.e_phoff == 0 {
        return Ok(None);
    }

    // If the number of segments is greater than or equal to PN_XNUM (0xffff),
    // e_phnum is set to PN_XNUM, and the actual number of program header table
    // entries is contained in the sh_info field of the section header at index 0.
    let mut phnum = ehdr.e_phnum as usize;
    if phnum == abi::PN_XNUM as usize {
        let shoff: usize = ehdr.e_shoff.try_into()?;
        let mut offset = shoff;
        let shdr0 = SectionHeader::parse_at(ehdr.endianness, ehdr.class, &mut offset, data)?;
        phnum = shdr0.sh_info.try_into()?;
    }

    // Validate phentsize before trying to read the table so that we can error early for corrupted files
    let entsize = ProgramHeader::validate_entsize(ehdr.class, ehdr.e_phentsize as usize)?;

    let phoff: usize = ehdr.e_phoff.try_into()?;
    let size = entsize
        .checked_mul(phnum)
        .ok_or(ParseError::IntegerOverflow)?;
    let end = phoff.checked_add(size).ok_or(ParseError::IntegerOverflow)?;
    let buf = data.get_bytes(phoff..end)?;
    Ok(Some(SegmentTable::new(ehdr.endianness, ehdr.class, buf)))
}
#[derive(Debug, Clone, PartialEq, Eq)]
pub struct Dyn {
    pub d_tag: i64,
    pub(crate) d_un: u64,
}

impl Dyn {
    pub fn d_val(&self) -> u64 {
        self.d_un
    }

    pub fn d_ptr(&self) -> u64 {
        self.d_un
    }
}

impl Dyn { pub closed spec fn s_un(&self) -> u64 { self.d_un } }
pub open spec fn sfld32(little: bool, w: Seq<u8>, off: int) -> int { sval(little, w.subrange(off, off + 4)) }
impl ParseAt for Dyn {
    open spec fn spec_size(class: Class) -> nat { match class { Class::ELF32 => 8, Class::ELF64 => 16 } }
    proof fn lemma_size_pos(class: Class) {}
    open spec fn spec_accepts(little: bool, class: Class, w: Seq<u8>) -> bool { true }
    closed spec fn spec_decode(little: bool, class: Class, w: Seq<u8>, b: int) -> Self {
        match class {
            Class::ELF32 => Dyn { d_tag: sfld32(little, w, b) as i64, d_un: fld(little, w, b + 4, 4) as u64 },
            Class::ELF64 => Dyn { d_tag: sval(little, w.subrange(b, b + 8)) as i64, d_un: fld(little, w, b + 8, 8) as u64 },
        }
    }

    fn parse_at<E: EndianParse>(
        endian: E,
        class: Class,
        offset: &mut usize,
        data: &[u8],
    ) -> Result<Self, ParseError> {
        match class {
            Class::ELF32 => Ok(Dyn {
                d_tag: endian.parse_i32_at(offset, data)? as i64,
                d_un: endian.parse_u32_at(offset, data)? as u64,
            }),
            Class::ELF64 => Ok(Dyn {
                d_tag: endian.parse_i64_at(offset, data)?,
                d_un: endian.parse_u64_at(offset, data)?,
            }),
        }
    }

    #[inline]
    fn size_for(class: Class) -> usize {
        match class {
            Class::ELF32 => 8,
            Class::ELF64 => 16,
        }
    }
}
}
fn main(){}
