use vstd::prelude::*;
use core::mem::size_of;
use core::str::from_utf8;
use core::{marker::PhantomData, ops::Range};
verus! {
#[verifier::external_type_specification]
#[verifier::external_body]
pub struct ExTryFromSliceError(core::array::TryFromSliceError);

#[verifier::external_type_specification]
#[verifier::external_body]
pub struct ExUtf8Error(core::str::Utf8Error);
pub enum ParseError {
    BadMagic([u8; 4]),
    UnsupportedElfClass(u8),
    UnsupportedElfEndianness(u8),
    UnsupportedVersion((u64, u64)),
    BadOffset(u64),
    StringTableMissingNul(u64),
    BadEntsize((u64, u64)),
    UnexpectedSectionType((u32, u32)),
    UnexpectedSegmentType((u32, u32)),
    UnexpectedAlignment(usize),
    SliceReadError((usize, usize)),
    IntegerOverflow,
    Utf8Error(core::str::Utf8Error),
    TryFromSliceError(core::array::TryFromSliceError),
    TryFromIntError(core::num::TryFromIntError),
}
impl From<core::num::TryFromIntError> for ParseError {
    #[verifier::external_body]
    fn from(err: core::num::TryFromIntError) -> Self {
        ParseError::TryFromIntError(err)
    }
}
impl vstd::std_specs::convert::FromSpecImpl<core::num::TryFromIntError> for ParseError {
    open spec fn obeys_from_spec() -> bool { true }
    open spec fn from_spec(v: core::num::TryFromIntError) -> Self { ParseError::TryFromIntError(v) }
}
impl From<core::array::TryFromSliceError> for ParseError {
    #[verifier::external_body]
    fn from(err: core::array::TryFromSliceError) -> Self {
        ParseError::TryFromSliceError(err)
    }
}
impl vstd::std_specs::convert::FromSpecImpl<core::array::TryFromSliceError> for ParseError {
    open spec fn obeys_from_spec() -> bool { true }
    open spec fn from_spec(v: core::array::TryFromSliceError) -> Self { ParseError::TryFromSliceError(v) }
}

// ---- spec of byte order
pub open spec fn le_val(s: Seq<u8>) -> nat decreases s.len() {
    if s.len() == 0 { 0 } else { s[0] as nat + 256 * le_val(s.drop_first()) }
}
pub open spec fn be_val(s: Seq<u8>) -> nat decreases s.len() {
    if s.len() == 0 { 0 } else { be_val(s.drop_last()) * 256 + s.last() as nat }
}
pub open spec fn uval(little: bool, s: Seq<u8>) -> nat { if little { le_val(s) } else { be_val(s) } }
// two's complement
pub open spec fn sval(little: bool, s: Seq<u8>) -> int {
    let u = uval(little, s) as int; let m = pow256(s.len()) as int;
    if 2*u >= m { u - m } else { u }
}
pub open spec fn pow256(n: nat) -> nat decreases n { if n == 0 { 1 } else { 256 * pow256((n-1) as nat) } }

#[verifier::external_body]
fn shim_u16_from_le_bytes(b: [u8; 2]) -> (r: u16) ensures r as nat == le_val(b@) { u16::from_le_bytes(b) }
#[verifier::external_body]
fn shim_u16_from_be_bytes(b: [u8; 2]) -> (r: u16) ensures r as nat == be_val(b@) { u16::from_be_bytes(b) }
#[verifier::external_body]
fn shim_i32_from_le_bytes(b: [u8; 4]) -> (r: i32) ensures r as int == sval(true, b@) { i32::from_le_bytes(b) }
#[verifier::external_body]
fn shim_i32_from_be_bytes(b: [u8; 4]) -> (r: i32) ensures r as int == sval(false, b@) { i32::from_be_bytes(b) }

#[verifier::external_body]
fn shim_u32_from_le_bytes(b: [u8; 4]) -> (r: u32) ensures r as nat == le_val(b@) { u32::from_le_bytes(b) }
#[verifier::external_body]
fn shim_u32_from_be_bytes(b: [u8; 4]) -> (r: u32) ensures r as nat == be_val(b@) { u32::from_be_bytes(b) }
#[verifier::external_body]
fn shim_u64_from_le_bytes(b: [u8; 8]) -> (r: u64) ensures r as nat == le_val(b@) { u64::from_le_bytes(b) }
#[verifier::external_body]
fn shim_u64_from_be_bytes(b: [u8; 8]) -> (r: u64) ensures r as nat == be_val(b@) { u64::from_be_bytes(b) }
#[verifier::external_body]
fn shim_u8_from_le_bytes(b: [u8; 1]) -> (r: u8) ensures r as nat == le_val(b@) { u8::from_le_bytes(b) }
#[verifier::external_body]
fn shim_u8_from_be_bytes(b: [u8; 1]) -> (r: u8) ensures r as nat == be_val(b@) { u8::from_be_bytes(b) }
pub assume_specification<'a, T: Copy, const N: usize>[ <[T; N] as TryFrom<&'a [T]>>::try_from ](s: &[T]) -> (r: Result<[T; N], core::array::TryFromSliceError>)
    ensures s@.len() == N ==> (r is Ok && r->Ok_0@ == s@),
            s@.len() != N ==> r is Err;

pub mod ax { use vstd::prelude::*;
pub broadcast proof fn lemma_subrange_subrange(s: Seq<u8>, a: int, b: int, c: int, d: int)
    requires 0 <= a <= b <= s.len(), 0 <= c <= d <= b - a
    ensures #[trigger] s.subrange(a, b).subrange(c, d) == s.subrange(a + c, a + d)
{ assert(s.subrange(a, b).subrange(c, d) =~= s.subrange(a + c, a + d)); }
pub broadcast proof fn lemma_slice_ext(a: &[u8], b: &[u8])
    requires a@ == b@
    ensures #![trigger a@, b@] a == b
{ assert(a@ =~= b@); }

use core::mem::size_of;
use core::str::from_utf8;
#[verifier::external_body]
pub broadcast proof fn axiom_slice_len_bound(s: &[u8]) ensures #[trigger] s@.len() <= isize::MAX {}
}
broadcast use {ax::axiom_slice_len_bound, ax::lemma_subrange_subrange, ax::lemma_slice_ext};

pub proof fn lemma_index_in_table(i: nat, sz: nat, len: nat)
    requires sz > 0
    ensures i < len / sz <==> i * sz + sz <= len
{
    vstd::arithmetic::div_mod::lemma_fundamental_div_mod(len as int, sz as int);
    vstd::arithmetic::div_mod::lemma_mod_bound(len as int, sz as int);
    let q = len / sz;
    if i < q {
        assert((i + 1) * sz <= q * sz) by (nonlinear_arith) requires i + 1 <= q, sz > 0;
        assert((i + 1) * sz == i * sz + sz) by (nonlinear_arith);
        assert(q * sz == sz * q) by (nonlinear_arith);
    } else {
        assert(q * sz <= i * sz) by (nonlinear_arith) requires q <= i, sz > 0;
        assert(q * sz == sz * q) by (nonlinear_arith);
    }
}
pub open spec fn read_ok(off: usize, w: nat, data: &[u8]) -> bool { off + w <= data@.len() }
pub open spec fn window(off: usize, w: nat, data: &[u8]) -> Seq<u8> { data@.subrange(off as int, off + w) }

pub trait EndianParse: Clone + Copy + Default + PartialEq + Eq {
    spec fn spec_is_little(self) -> bool;

    fn parse_u16_at(self, offset: &mut usize, data: &[u8]) -> (r: Result<u16, ParseError>)
        ensures
            read_ok(*old(offset), 2, data) <==> r is Ok,
            r is Ok ==> *final(offset) == *old(offset) + 2 && r->Ok_0 as nat == uval(self.spec_is_little(), window(*old(offset), 2, data)),
            r is Err ==> *final(offset) == *old(offset),
    {
        let end = (*offset)
            .checked_add(2)
            .ok_or(ParseError::IntegerOverflow)?;

        let buf: [u8; 2] = data
            .get(*offset..end)
            .ok_or(ParseError::SliceReadError((*offset, end)))?
            .try_into()?;

        *offset = end;

        if self.is_little() {
            Ok(shim_u16_from_le_bytes(buf))
        } else {
            Ok(shim_u16_from_be_bytes(buf))
        }
    }
    fn parse_u32_at(self, offset: &mut usize, data: &[u8]) -> (r: Result<u32, ParseError>)
        ensures
            read_ok(*old(offset), 4, data) <==> r is Ok,
            r is Ok ==> *final(offset) == *old(offset) + 4 && r->Ok_0 as nat == uval(self.spec_is_little(), window(*old(offset), 4, data)),
            r is Err ==> *final(offset) == *old(offset),
    {
        let end = (*offset)
            .checked_add(4)
            .ok_or(ParseError::IntegerOverflow)?;

        let buf: [u8; 4] = data
            .get(*offset..end)
            .ok_or(ParseError::SliceReadError((*offset, end)))?
            .try_into()?;

        *offset = end;

        if self.is_little() {
            Ok(shim_u32_from_le_bytes(buf))
        } else {
            Ok(shim_u32_from_be_bytes(buf))
        }
    }
    fn parse_u64_at(self, offset: &mut usize, data: &[u8]) -> (r: Result<u64, ParseError>)
        ensures
            read_ok(*old(offset), 8, data) <==> r is Ok,
            r is Ok ==> *final(offset) == *old(offset) + 8 && r->Ok_0 as nat == uval(self.spec_is_little(), window(*old(offset), 8, data)),
            r is Err ==> *final(offset) == *old(offset),
    {
        let end = (*offset)
            .checked_add(8)
            .ok_or(ParseError::IntegerOverflow)?;

        let buf: [u8; 8] = data
            .get(*offset..end)
            .ok_or(ParseError::SliceReadError((*offset, end)))?
            .try_into()?;

        *offset = end;

        if self.is_little() {
            Ok(shim_u64_from_le_bytes(buf))
        } else {
            Ok(shim_u64_from_be_bytes(buf))
        }
    }
    fn parse_u8_at(self, offset: &mut usize, data: &[u8]) -> (r: Result<u8, ParseError>)
        ensures
            read_ok(*old(offset), 1, data) <==> r is Ok,
            r is Ok ==> *final(offset) == *old(offset) + 1 && r->Ok_0 as nat == uval(self.spec_is_little(), window(*old(offset), 1, data)),
            r is Err ==> *final(offset) == *old(offset),
    {
        let end = (*offset)
            .checked_add(1)
            .ok_or(ParseError::IntegerOverflow)?;

        let buf: [u8; 1] = data
            .get(*offset..end)
            .ok_or(ParseError::SliceReadError((*offset, end)))?
            .try_into()?;

        *offset = end;

        if self.is_little() {
            Ok(shim_u8_from_le_bytes(buf))
        } else {
            Ok(shim_u8_from_be_bytes(buf))
        }
    }
    fn parse_i32_at(self, offset: &mut usize, data: &[u8]) -> (r: Result<i32, ParseError>)
        ensures
            read_ok(*old(offset), 4, data) <==> r is Ok,
            r is Ok ==> *final(offset) == *old(offset) + 4 && r->Ok_0 as int == sval(self.spec_is_little(), window(*old(offset), 4, data)),
            r is Err ==> *final(offset) == *old(offset),
    {
        let end = (*offset)
            .checked_add(4)
            .ok_or(ParseError::IntegerOverflow)?;

        let buf: [u8; 4] = data
            .get(*offset..end)
            .ok_or(ParseError::SliceReadError((*offset, end)))?
            .try_into()?;

        *offset = end;

        if self.is_little() {
            Ok(shim_i32_from_le_bytes(buf))
        } else {
            Ok(shim_i32_from_be_bytes(buf))
        }
    }

    fn from_ei_data(ei_data: u8) -> Result<Self, ParseError>;

    fn is_little(self) -> (r: bool) ensures r == self.spec_is_little();

    #[inline(always)]
    fn is_big(self) -> bool {
        !self.is_little()
    }
}

#[derive(Debug, Copy, Clone, PartialEq, Eq)]
pub enum Class {
    ELF32,
    ELF64,
}
pub trait ParseAt: Sized {
    /// Parse this type by using the given endian-awareness and ELF class layout.
    /// This is generic on EndianParse in order to allow users to optimize for
    /// their expectations of data layout. See EndianParse for more details.
    spec fn spec_size(class: Class) -> nat;
    proof fn lemma_size_pos(class: Class) ensures Self::spec_size(class) > 0;
    spec fn spec_accepts(little: bool, class: Class, w: Seq<u8>) -> bool;
    spec fn spec_decode(little: bool, class: Class, w: Seq<u8>, b: int) -> Self;
    fn parse_at<E: EndianParse>(
        endian: E,
        class: Class,
        offset: &mut usize,
        data: &[u8],
    ) -> (r: Result<Self, ParseError>)
        ensures
            r is Ok <==> (read_ok(*old(offset), Self::spec_size(class), data) && Self::spec_accepts(endian.spec_is_little(), class, window(*old(offset), Self::spec_size(class), data))),
            r is Ok ==> *final(offset) == *old(offset) + Self::spec_size(class)
                 && r->Ok_0 == Self::spec_decode(endian.spec_is_little(), class, data@, *old(offset) as int),
            r is Err ==> *old(offset) <= *final(offset) <= *old(offset) + Self::spec_size(class),
    ;

    /// Returns the expected size of the type being parsed for the given ELF class
    fn size_for(class: Class) -> (r: usize) ensures r == Self::spec_size(class), r > 0;

    /// Checks whether the given entsize matches what we need to parse this type
    ///
    /// Returns a ParseError for bad/unexpected entsizes that don't match what this type parses.
    fn validate_entsize(class: Class, entsize: usize) -> Result<usize, ParseError> {
        let expected = Self::size_for(class);
        match entsize == expected {
            true => Ok(entsize),
            false => Err(ParseError::BadEntsize((entsize as u64, expected as u64))),
        }
    }
}/// Encapsulates the contents of an ELF Section Header
///
/// This is a Rust-native type that represents a Section Header that is bit-width-agnostic.
#[derive(Copy, Clone, Debug, PartialEq, Eq)]
pub struct SectionHeader {
    /// Section Name
    pub sh_name: u32,
    /// Section Type
    pub sh_type: u32,
    /// Section Flags
    pub sh_flags: u64,
    /// in-memory address where this section is loaded
    pub sh_addr: u64,
    /// Byte-offset into the file where this section starts
    pub sh_offset: u64,
    /// Section size in bytes
    pub sh_size: u64,
    /// Defined by section type
    pub sh_link: u32,
    /// Defined by section type
    pub sh_info: u32,
    /// address alignment
    pub sh_addralign: u64,
    /// size of an entry if section data is an array of entries
    pub sh_entsize: u64,
}

pub open spec fn fld(little: bool, w: Seq<u8>, off: int, n: int) -> nat { uval(little, w.subrange(off, off + n)) }
impl ParseAt for SectionHeader {
    open spec fn spec_size(class: Class) -> nat { match class { Class::ELF32 => 40, Class::ELF64 => 64 } }
    proof fn lemma_size_pos(class: Class) {}
    open spec fn spec_accepts(little: bool, class: Class, w: Seq<u8>) -> bool { true }
    open spec fn spec_decode(little: bool, class: Class, w: Seq<u8>, b: int) -> Self {
        match class {
            Class::ELF32 => SectionHeader {
                sh_name: fld(little, w, b + 0, 4) as u32, sh_type: fld(little, w, b + 4, 4) as u32, sh_flags: fld(little, w, b + 8, 4) as u64,
                sh_addr: fld(little, w, b + 12, 4) as u64, sh_offset: fld(little, w, b + 16, 4) as u64, sh_size: fld(little, w, b + 20, 4) as u64,
                sh_link: fld(little, w, b + 24, 4) as u32, sh_info: fld(little, w, b + 28, 4) as u32, sh_addralign: fld(little, w, b + 32, 4) as u64,
                sh_entsize: fld(little, w, b + 36, 4) as u64 },
            Class::ELF64 => SectionHeader {
                sh_name: fld(little, w, b + 0, 4) as u32, sh_type: fld(little, w, b + 4, 4) as u32, sh_flags: fld(little, w, b + 8, 8) as u64,
                sh_addr: fld(little, w, b + 16, 8) as u64, sh_offset: fld(little, w, b + 24, 8) as u64, sh_size: fld(little, w, b + 32, 8) as u64,
                sh_link: fld(little, w, b + 40, 4) as u32, sh_info: fld(little, w, b + 44, 4) as u32, sh_addralign: fld(little, w, b + 48, 8) as u64,
                sh_entsize: fld(little, w, b + 56, 8) as u64 },
        }
    }

    fn parse_at<E: EndianParse>(
        endian: E,
        class: Class,
        offset: &mut usize,
        data: &[u8],
    ) -> Result<Self, ParseError> {
        match class {
            Class::ELF32 => Ok(SectionHeader {
                sh_name: endian.parse_u32_at(offset, data)?,
                sh_type: endian.parse_u32_at(offset, data)?,
                sh_flags: endian.parse_u32_at(offset, data)? as u64,
                sh_addr: endian.parse_u32_at(offset, data)? as u64,
                sh_offset: endian.parse_u32_at(offset, data)? as u64,
                sh_size: endian.parse_u32_at(offset, data)? as u64,
                sh_link: endian.parse_u32_at(offset, data)?,
                sh_info: endian.parse_u32_at(offset, data)?,
                sh_addralign: endian.parse_u32_at(offset, data)? as u64,
                sh_entsize: endian.parse_u32_at(offset, data)? as u64,
            }),
            Class::ELF64 => Ok(SectionHeader {
                sh_name: endian.parse_u32_at(offset, data)?,
                sh_type: endian.parse_u32_at(offset, data)?,
                sh_flags: endian.parse_u64_at(offset, data)?,
                sh_addr: endian.parse_u64_at(offset, data)?,
                sh_offset: endian.parse_u64_at(offset, data)?,
                sh_size: endian.parse_u64_at(offset, data)?,
                sh_link: endian.parse_u32_at(offset, data)?,
                sh_info: endian.parse_u32_at(offset, data)?,
                sh_addralign: endian.parse_u64_at(offset, data)?,
                sh_entsize: endian.parse_u64_at(offset, data)?,
            }),
        }
    }

    #[inline]
    fn size_for(class: Class) -> usize {
        match class {
            Class::ELF32 => 40,
            Class::ELF64 => 64,
        }
    }
}

impl SectionHeader {
    /// Helper method which uses checked integer math to get a tuple of (start,end) for
    /// this SectionHeader's (sh_offset, sh_offset + sh_size)
    pub(crate) fn get_data_range(&self) -> Result<(usize, usize), ParseError> {
        let start: usize = self.sh_offset.try_into()?;
        let size: usize = self.sh_size.try_into()?;
        let end = start.checked_add(size).ok_or(ParseError::IntegerOverflow)?;
        Ok((start, end))
    }
}
/// Lazy-parsing iterator which wraps bytes and parses out a `P: ParseAt` on each `next()`
#[derive(Debug)]
pub struct ParsingIterator<'data, E: EndianParse, P: ParseAt> {
    endian: E,
    class: Class,
    data: &'data [u8],
    offset: usize,
    // This struct doesn't technically own a P, but it yields them
    // as it iterates
    pd: PhantomData<&'data P>,
}

impl<'data, E: EndianParse, P: ParseAt> ParsingIterator<'data, E, P> {
    pub closed spec fn sdata(&self) -> &'data [u8] { self.data }
    pub closed spec fn soffset(&self) -> usize { self.offset }
    pub closed spec fn sclass(&self) -> Class { self.class }
    pub closed spec fn sendian(&self) -> E { self.endian }

    pub fn new(endian: E, class: Class, data: &'data [u8]) -> Self {
        ParsingIterator {
            endian,
            class,
            data,
            offset: 0,
            pd: PhantomData,
        }
    }
}

impl<E: EndianParse, P: ParseAt> vstd::std_specs::iter::IteratorSpecImpl for ParsingIterator<'_, E, P> {
    open spec fn obeys_prophetic_iter_laws(&self) -> bool { false }
    uninterp spec fn remaining(&self) -> Seq<P>;
    uninterp spec fn will_return_none(&self) -> bool;
    uninterp spec fn decrease(&self) -> Option<nat>;
    uninterp spec fn peek(&self, i: int) -> Option<P>;
}
impl<E: EndianParse, P: ParseAt> Iterator for ParsingIterator<'_, E, P> {
    type Item = P;
    fn next(&mut self) -> (r: Option<Self::Item>)
        ensures
            final(self).sdata() == old(self).sdata(), final(self).sclass() == old(self).sclass(), final(self).sendian() == old(self).sendian(),
            r is Some <==> (old(self).sdata()@.len() > 0 && read_ok(old(self).soffset(), P::spec_size(old(self).sclass()), old(self).sdata())
                 && P::spec_accepts(old(self).sendian().spec_is_little(), old(self).sclass(), window(old(self).soffset(), P::spec_size(old(self).sclass()), old(self).sdata()))),
            r is Some ==> final(self).soffset() == old(self).soffset() + P::spec_size(old(self).sclass())
                 && r->Some_0 == P::spec_decode(old(self).sendian().spec_is_little(), old(self).sclass(), old(self).sdata()@, old(self).soffset() as int),
            r is None ==> final(self).soffset() >= old(self).soffset(),
    {
        if self.data.is_empty() {
            return None;
        }

        Self::Item::parse_at(self.endian, self.class, &mut self.offset, self.data).ok()
    }
}

/// Lazy-parsing table which wraps bytes and parses out a `P: ParseAt` at a given index into
/// the table on each `get()`.
#[derive(Debug, Clone, Copy)]
pub struct ParsingTable<'data, E: EndianParse, P: ParseAt> {
    endian: E,
    class: Class,
    data: &'data [u8],
    // This struct doesn't technically own a P, but it yields them
    pd: PhantomData<&'data P>,
}

impl<'data, E: EndianParse, P: ParseAt> ParsingTable<'data, E, P> {
    pub closed spec fn sdata(&self) -> &'data [u8] { self.data }
    pub closed spec fn sclass(&self) -> Class { self.class }
    pub closed spec fn sendian(&self) -> E { self.endian }
    pub open spec fn slen(&self) -> nat { self.sdata()@.len() / P::spec_size(self.sclass()) }

    pub fn new(endian: E, class: Class, data: &'data [u8]) -> Self {
        ParsingTable {
            endian,
            class,
            data,
            pd: PhantomData,
        }
    }

    /// Get a lazy-parsing iterator for the table's bytes
    pub fn iter(&self) -> ParsingIterator<'data, E, P> {
        ParsingIterator::new(self.endian, self.class, self.data)
    }

    /// Returns the number of elements of type P in the table.
    pub fn len(&self) -> (r: usize) ensures r == self.slen() {
        self.data.len() / P::size_for(self.class)
    }

    /// Returns whether the table is empty (contains zero elements).
    pub fn is_empty(&self) -> (r: bool) ensures r == (self.slen() == 0) {
        self.len() == 0
    }

    /// Parse the element at `index` in the table.
    pub fn get(&self, index: usize) -> (r: Result<P, ParseError>)
        ensures
            r is Ok <==> (index < self.slen() && P::spec_accepts(self.sendian().spec_is_little(), self.sclass(), self.sdata()@.subrange(index * P::spec_size(self.sclass()), index * P::spec_size(self.sclass()) + P::spec_size(self.sclass())))),
            r is Ok ==> r->Ok_0 == P::spec_decode(self.sendian().spec_is_little(), self.sclass(), self.sdata()@, index * P::spec_size(self.sclass())),
    {
        proof { P::lemma_size_pos(self.sclass()); lemma_index_in_table(index as nat, P::spec_size(self.sclass()), self.sdata()@.len()); }
        if self.data.is_empty() {
            return Err(ParseError::BadOffset(index as u64));
        }

        let entsize = P::size_for(self.class);
        let mut start = index
            .checked_mul(entsize)
            .ok_or(ParseError::IntegerOverflow)?;
        if start > self.data.len() {
            return Err(ParseError::BadOffset(index as u64));
        }

        P::parse_at(self.endian, self.class, &mut start, self.data)
    }
}

impl<'data, E: EndianParse, P: ParseAt> IntoIterator for ParsingTable<'data, E, P> {
    type IntoIter = ParsingIterator<'data, E, P>;
    type Item = P;

    fn into_iter(self) -> Self::IntoIter {
        ParsingIterator::new(self.endian, self.class, self.data)
    }
}

// Simple convenience extension trait to wrap get() with .ok_or(SliceReadError)
pub(crate) trait ReadBytesExt<'data> {
    spec fn sview(self) -> Seq<u8>;
    fn get_bytes(self, range: Range<usize>) -> (r: Result<&'data [u8], ParseError>)
        ensures r is Ok <==> (range.start <= range.end && range.end <= self.sview().len()),
                r is Ok ==> r->Ok_0@ == self.sview().subrange(range.start as int, range.end as int);
}

impl<'data> ReadBytesExt<'data> for &'data [u8] {
    spec fn sview(self) -> Seq<u8> { self@ }
    fn get_bytes(self, range: Range<usize>) -> Result<&'data [u8], ParseError> {
        let start = range.start;
        let end = range.end;
        self.get(range)
            .ok_or(ParseError::SliceReadError((start, end)))
    }
}
global size_of usize == 8;
pub assume_specification [core::str::from_utf8] (v: &[u8]) -> (r: Result<&str, core::str::Utf8Error>);
impl From<core::str::Utf8Error> for ParseError {
    #[verifier::external_body]
    fn from(err: core::str::Utf8Error) -> Self { ParseError::Utf8Error(err) }
}
pub mod abi { use vstd::prelude::*;
pub exec const ELF_NOTE_GNU: &'static [u8] ensures ELF_NOTE_GNU@ == seq![71u8, 78u8, 85u8, 0u8] { let x: &'static [u8; 4] = &[71u8, 78u8, 85u8, 0u8]; x }
pub const NT_GNU_ABI_TAG: u64 = 1; pub const NT_GNU_BUILD_ID: u64 = 3; }

/// This enum contains parsed Note variants which can be matched on
#[derive(Debug, PartialEq, Eq)]
pub enum Note<'data> {
    /// (name: [abi::ELF_NOTE_GNU], n_type: [abi::NT_GNU_ABI_TAG])
    GnuAbiTag(NoteGnuAbiTag),
    /// (name: [abi::ELF_NOTE_GNU], n_type: [abi::NT_GNU_BUILD_ID])
    GnuBuildId(NoteGnuBuildId<'data>),
    /// All other notes that we don't know how to parse
    Unknown(NoteAny<'data>),
}


pub proof fn lemma_le_bound(s: Seq<u8>) ensures le_val(s) < pow256(s.len()) decreases s.len() {
    if s.len() > 0 { lemma_le_bound(s.drop_first()); }
}
pub proof fn lemma_be_bound(s: Seq<u8>) ensures be_val(s) < pow256(s.len()) decreases s.len() {
    if s.len() > 0 { lemma_be_bound(s.drop_last()); }
}
pub proof fn lemma_pow256_small() ensures pow256(4) == 0x1_0000_0000 { reveal_with_fuel(pow256, 5); }
pub proof fn lemma_fld4_bound(l: bool, s: Seq<u8>, off: int)
    requires 0 <= off, off + 4 <= s.len()
    ensures uval(l, s.subrange(off, off + 4)) <= u32::MAX
{
    lemma_le_bound(s.subrange(off, off + 4)); lemma_be_bound(s.subrange(off, off + 4)); lemma_pow256_small();
}
pub open spec fn pad(off: int, align: int) -> int { if off % align > 0 { off + (align - off % align) } else { off } }
pub open spec fn n_namesz(l: bool, d: Seq<u8>, off: int) -> int { fld(l, d, off, 4) as int }
pub open spec fn n_descsz(l: bool, d: Seq<u8>, off: int) -> int { fld(l, d, off + 4, 4) as int }
pub open spec fn n_type(l: bool, d: Seq<u8>, off: int) -> int { fld(l, d, off + 8, 4) as int }
pub open spec fn name_end(l: bool, d: Seq<u8>, off: int) -> int { off + 12 + n_namesz(l, d, off) }
pub open spec fn desc_start(l: bool, a: int, d: Seq<u8>, off: int) -> int { pad(name_end(l, d, off), a) }
pub open spec fn desc_end(l: bool, a: int, d: Seq<u8>, off: int) -> int { desc_start(l, a, d, off) + n_descsz(l, d, off) }
pub open spec fn note_next(l: bool, a: int, d: Seq<u8>, off: int) -> int { pad(desc_end(l, a, d, off), a) }
pub open spec fn gnu_name() -> Seq<u8> { seq![71u8, 78u8, 85u8, 0u8] }
pub open spec fn note_name(l: bool, d: Seq<u8>, off: int) -> Seq<u8> { d.subrange(off + 12, name_end(l, d, off)) }
pub open spec fn note_desc(l: bool, a: int, d: Seq<u8>, off: int) -> Seq<u8> { d.subrange(desc_start(l, a, d, off), desc_end(l, a, d, off)) }
pub open spec fn note_fits(l: bool, a: int, d: Seq<u8>, off: int) -> bool {
    &&& a != 0 &&& off + 12 <= d.len() &&& name_end(l, d, off) <= d.len()
    &&& desc_start(l, a, d, off) <= usize::MAX &&& desc_end(l, a, d, off) <= d.len() &&& note_next(l, a, d, off) <= usize::MAX
    &&& (note_name(l, d, off) == gnu_name() && n_type(l, d, off) == 1 ==> n_descsz(l, d, off) >= 16)
}
impl<'data> Note<'data> {
    fn parse_at<E: EndianParse>(
        endian: E,
        _class: Class,
        align: usize,
        offset: &mut usize,
        data: &'data [u8],
    ) -> (r: Result<Self, ParseError>)
        ensures
            r is Ok <==> note_fits(endian.spec_is_little(), align as int, data@, *old(offset) as int),
            r is Ok ==> *final(offset) == note_next(endian.spec_is_little(), align as int, data@, *old(offset) as int),
            r is Ok ==> ({ let l = endian.spec_is_little(); let a = align as int; let d = data@; let off = *old(offset) as int;
                let nm = note_name(l, d, off); let ds = note_desc(l, a, d, off); let ty = n_type(l, d, off);
                if nm == gnu_name() && ty == 1 { r->Ok_0 == Note::GnuAbiTag(NoteGnuAbiTag::spec_decode(l, _class, d, desc_start(l, a, d, off))) }
                else if nm == gnu_name() && ty == 3 { r->Ok_0 is GnuBuildId && r->Ok_0->GnuBuildId_0.0@ == ds }
                else { r->Ok_0 is Unknown && r->Ok_0->Unknown_0.n_type == ty && r->Ok_0->Unknown_0.name@ == nm && r->Ok_0->Unknown_0.desc@ == ds } }),
    {
        // We don't know what to do if the section or segment header specified a zero alignment, so error
        // (this is likely a file corruption)
        if align == 0 {
            return Err(ParseError::UnexpectedAlignment(align));
        }

        // It looks like clang and gcc emit 32-bit notes for 64-bit files, so we
        // currently always parse all note headers as 32-bit.
        let nhdr = NoteHeader::parse_at(endian, Class::ELF32, offset, data)?;

        proof {
            let l = endian.spec_is_little(); let d = data@; let off = *old(offset) as int;
            lemma_fld4_bound(l, d, off); lemma_fld4_bound(l, d, off + 4); lemma_fld4_bound(l, d, off + 8);
        }
        let name_start = *offset;
        let name_size: usize = nhdr.n_namesz.try_into()?;
        let name_end = name_start
            .checked_add(name_size)
            .ok_or(ParseError::IntegerOverflow)?;
        let name = data.get_bytes(name_start..name_end)?;
        *offset = name_end;

        // skip over padding if needed to get back to 4-byte alignment
        if *offset % align > 0 {
            *offset = (*offset)
                .checked_add(align - *offset % align)
                .ok_or(ParseError::IntegerOverflow)?;
        }

        let desc_start = *offset;
        let desc_size: usize = nhdr.n_descsz.try_into()?;
        let desc_end = desc_start
            .checked_add(desc_size)
            .ok_or(ParseError::IntegerOverflow)?;
        let raw_desc = data.get_bytes(desc_start..desc_end)?;
        *offset = desc_end;

        // skip over padding if needed to get back to 4-byte alignment
        if *offset % align > 0 {
            *offset = (*offset)
                .checked_add(align - *offset % align)
                .ok_or(ParseError::IntegerOverflow)?;
        }

        // Interpret the note contents to try to return a known note variant
        match name {
            abi::ELF_NOTE_GNU => match nhdr.n_type {
                abi::NT_GNU_ABI_TAG => {
                    let mut offset = 0;
                    Ok(Note::GnuAbiTag(NoteGnuAbiTag::parse_at(
                        endian,
                        _class,
                        &mut offset,
                        raw_desc,
                    )?))
                }
                abi::NT_GNU_BUILD_ID => Ok(Note::GnuBuildId(NoteGnuBuildId(raw_desc))),
                _ => Ok(Note::Unknown(NoteAny {
                    n_type: nhdr.n_type,
                    name,
                    desc: raw_desc,
                })),
            },
            _ => Ok(Note::Unknown(NoteAny {
                n_type: nhdr.n_type,
                name,
                desc: raw_desc,
            })),
        }
    }
}

/// Contains four 4-byte integers.
/// The first 4-byte integer specifies the os. The second, third, and fourth
/// 4-byte integers contain the earliest compatible kernel version.
/// For example, if the 3 integers are 6, 0, and 7, this signifies a 6.0.7 kernel.
///
/// (see: <https://raw.githubusercontent.com/wiki/hjl-tools/linux-abi/linux-abi-draft.pdf>)
#[derive(Debug, Clone, Copy, PartialEq, Eq)]
pub struct NoteGnuAbiTag {
    pub os: u32,
    pub major: u32,
    pub minor: u32,
    pub subminor: u32,
}

impl ParseAt for NoteGnuAbiTag {
    open spec fn spec_size(class: Class) -> nat { 16 }
    proof fn lemma_size_pos(class: Class) {}
    open spec fn spec_accepts(little: bool, class: Class, w: Seq<u8>) -> bool { true }
    open spec fn spec_decode(little: bool, class: Class, w: Seq<u8>, b: int) -> Self {
        NoteGnuAbiTag { os: fld(little, w, b, 4) as u32, major: fld(little, w, b + 4, 4) as u32, minor: fld(little, w, b + 8, 4) as u32, subminor: fld(little, w, b + 12, 4) as u32 }
    }

    fn parse_at<E: EndianParse>(
        endian: E,
        _class: Class,
        offset: &mut usize,
        data: &[u8],
    ) -> Result<Self, ParseError> {
        Ok(NoteGnuAbiTag {
            os: endian.parse_u32_at(offset, data)?,
            major: endian.parse_u32_at(offset, data)?,
            minor: endian.parse_u32_at(offset, data)?,
            subminor: endian.parse_u32_at(offset, data)?,
        })
    }

    fn size_for(_class: Class) -> usize {
        size_of::<u32>() * 4
    }
}

/// Contains a build ID note which is unique among the set of meaningful contents
/// for ELF files and identical when the output file would otherwise have been identical.
/// This is a zero-copy type which merely contains a slice of the note data from which it was parsed.
///
/// (see: <https://raw.githubusercontent.com/wiki/hjl-tools/linux-abi/linux-abi-draft.pdf>)
#[derive(Debug, Clone, Copy, PartialEq, Eq)]
pub struct NoteGnuBuildId<'data>(pub &'data [u8]);

/// Contains the raw fields found in any ELF note. Used for notes that we don't know
/// how to parse into more specific types.
#[derive(Debug, PartialEq, Eq)]
pub struct NoteAny<'data> {
    pub n_type: u64,
    pub name: &'data [u8],
    pub desc: &'data [u8],
}

impl NoteAny<'_> {
    /// Parses the note's name bytes as a utf8 sequence, with any trailing NUL bytes removed
    #[verifier::external_body]
    pub fn name_str(&self) -> Result<&str, ParseError> {
        let name = from_utf8(self.name)?;
        Ok(name.trim_end_matches('\0'))
    }
}

#[derive(Debug)]
pub struct NoteIterator<'data, E: EndianParse> {
    endian: E,
    class: Class,
    align: usize,
    data: &'data [u8],
    offset: usize,
}

impl<'data, E: EndianParse> NoteIterator<'data, E> {
    pub fn new(endian: E, class: Class, align: usize, data: &'data [u8]) -> Self {
        NoteIterator {
            endian,
            class,
            align,
            data,
            offset: 0,
        }
    }
}

impl<'data, E: EndianParse> vstd::std_specs::iter::IteratorSpecImpl for NoteIterator<'data, E> {
    open spec fn obeys_prophetic_iter_laws(&self) -> bool { false }
    uninterp spec fn remaining(&self) -> Seq<Note<'data>>;
    uninterp spec fn will_return_none(&self) -> bool;
    uninterp spec fn decrease(&self) -> Option<nat>;
    uninterp spec fn peek(&self, i: int) -> Option<Note<'data>>;
}
impl<'data, E: EndianParse> Iterator for NoteIterator<'data, E> {
    type Item = Note<'data>;
    fn next(&mut self) -> Option<Self::Item> {
        if self.data.is_empty() {
            return None;
        }

        Note::parse_at(
            self.endian,
            self.class,
            self.align,
            &mut self.offset,
            self.data,
        )
        .ok()
    }
}

#[derive(Debug, Clone, PartialEq, Eq)]
struct NoteHeader {
    pub n_namesz: u64,
    pub n_descsz: u64,
    pub n_type: u64,
}

impl ParseAt for NoteHeader {
    open spec fn spec_size(class: Class) -> nat { match class { Class::ELF32 => 12, Class::ELF64 => 24 } }
    proof fn lemma_size_pos(class: Class) {}
    open spec fn spec_accepts(little: bool, class: Class, w: Seq<u8>) -> bool { true }
    closed spec fn spec_decode(little: bool, class: Class, w: Seq<u8>, b: int) -> Self {
        match class {
          Class::ELF32 => NoteHeader { n_namesz: fld(little, w, b, 4) as u64, n_descsz: fld(little, w, b + 4, 4) as u64, n_type: fld(little, w, b + 8, 4) as u64 },
          Class::ELF64 => NoteHeader { n_namesz: fld(little, w, b, 8) as u64, n_descsz: fld(little, w, b + 8, 8) as u64, n_type: fld(little, w, b + 16, 8) as u64 },
        }
    }

    fn parse_at<E: EndianParse>(
        endian: E,
        class: Class,
        offset: &mut usize,
        data: &[u8],
    ) -> Result<Self, ParseError> {
        match class {
            Class::ELF32 => Ok(NoteHeader {
                n_namesz: endian.parse_u32_at(offset, data)? as u64,
                n_descsz: endian.parse_u32_at(offset, data)? as u64,
                n_type: endian.parse_u32_at(offset, data)? as u64,
            }),
            Class::ELF64 => Ok(NoteHeader {
                n_namesz: endian.parse_u64_at(offset, data)?,
                n_descsz: endian.parse_u64_at(offset, data)?,
                n_type: endian.parse_u64_at(offset, data)?,
            }),
        }
    }

    #[inline]
    fn size_for(class: Class) -> usize {
        match class {
            Class::ELF32 => 12,
            Class::ELF64 => 24,
        }
    }
}
}
fn main(){}
