#![feature(allocator_api)]
use vstd::prelude::*;
use std::collections::HashMap;
use std::io::{Read, Seek, SeekFrom};
use core::{marker::PhantomData, ops::Range};
verus! {
#[verifier::external_type_specification]
#[verifier::external_body]
pub struct ExTryFromSliceError(core::array::TryFromSliceError);

#[verifier::external_type_specification]
#[verifier::external_body]
pub struct ExUtf8Error(core::str::Utf8Error);
pub enum ParseError {
    BadMagic([u8; 4]),
    UnsupportedElfClass(u8),
    UnsupportedElfEndianness(u8),
    UnsupportedVersion((u64, u64)),
    BadOffset(u64),
    StringTableMissingNul(u64),
    BadEntsize((u64, u64)),
    UnexpectedSectionType((u32, u32)),
    UnexpectedSegmentType((u32, u32)),
    UnexpectedAlignment(usize),
    SliceReadError((usize, usize)),
    IntegerOverflow,
    Utf8Error(core::str::Utf8Error),
    TryFromSliceError(core::array::TryFromSliceError),
    TryFromIntError(core::num::TryFromIntError),
    IOError(std::io::Error),
}
impl From<core::num::TryFromIntError> for ParseError {
    #[verifier::external_body]
    fn from(err: core::num::TryFromIntError) -> Self {
        ParseError::TryFromIntError(err)
    }
}
impl vstd::std_specs::convert::FromSpecImpl<core::num::TryFromIntError> for ParseError {
    open spec fn obeys_from_spec() -> bool { true }
    open spec fn from_spec(v: core::num::TryFromIntError) -> Self { ParseError::TryFromIntError(v) }
}
impl From<core::array::TryFromSliceError> for ParseError {
    #[verifier::external_body]
    fn from(err: core::array::TryFromSliceError) -> Self {
        ParseError::TryFromSliceError(err)
    }
}
impl vstd::std_specs::convert::FromSpecImpl<core::array::TryFromSliceError> for ParseError {
    open spec fn obeys_from_spec() -> bool { true }
    open spec fn from_spec(v: core::array::TryFromSliceError) -> Self { ParseError::TryFromSliceError(v) }
}

// ---- spec of byte order
pub open spec fn le_val(s: Seq<u8>) -> nat decreases s.len() {
    if s.len() == 0 { 0 } else { s[0] as nat + 256 * le_val(s.drop_first()) }
}
pub open spec fn be_val(s: Seq<u8>) -> nat decreases s.len() {
    if s.len() == 0 { 0 } else { be_val(s.drop_last()) * 256 + s.last() as nat }
}
pub open spec fn uval(little: bool, s: Seq<u8>) -> nat { if little { le_val(s) } else { be_val(s) } }
// two's complement
pub open spec fn sval(little: bool, s: Seq<u8>) -> int {
    let u = uval(little, s) as int; let m = pow256(s.len()) as int;
    if 2*u >= m { u - m } else { u }
}
pub open spec fn pow256(n: nat) -> nat decreases n { if n == 0 { 1 } else { 256 * pow256((n-1) as nat) } }

#[verifier::external_body]
fn shim_u16_from_le_bytes(b: [u8; 2]) -> (r: u16) ensures r as nat == le_val(b@) { u16::from_le_bytes(b) }
#[verifier::external_body]
fn shim_u16_from_be_bytes(b: [u8; 2]) -> (r: u16) ensures r as nat == be_val(b@) { u16::from_be_bytes(b) }
#[verifier::external_body]
fn shim_i32_from_le_bytes(b: [u8; 4]) -> (r: i32) ensures r as int == sval(true, b@) { i32::from_le_bytes(b) }
#[verifier::external_body]
fn shim_i32_from_be_bytes(b: [u8; 4]) -> (r: i32) ensures r as int == sval(false, b@) { i32::from_be_bytes(b) }

#[verifier::external_body]
fn shim_u32_from_le_bytes(b: [u8; 4]) -> (r: u32) ensures r as nat == le_val(b@) { u32::from_le_bytes(b) }
#[verifier::external_body]
fn shim_u32_from_be_bytes(b: [u8; 4]) -> (r: u32) ensures r as nat == be_val(b@) { u32::from_be_bytes(b) }
#[verifier::external_body]
fn shim_u64_from_le_bytes(b: [u8; 8]) -> (r: u64) ensures r as nat == le_val(b@) { u64::from_le_bytes(b) }
#[verifier::external_body]
fn shim_u64_from_be_bytes(b: [u8; 8]) -> (r: u64) ensures r as nat == be_val(b@) { u64::from_be_bytes(b) }
#[verifier::external_body]
fn shim_u8_from_le_bytes(b: [u8; 1]) -> (r: u8) ensures r as nat == le_val(b@) { u8::from_le_bytes(b) }
#[verifier::external_body]
fn shim_u8_from_be_bytes(b: [u8; 1]) -> (r: u8) ensures r as nat == be_val(b@) { u8::from_be_bytes(b) }
pub assume_specification<'a, T: Copy, const N: usize>[ <[T; N] as TryFrom<&'a [T]>>::try_from ](s: &[T]) -> (r: Result<[T; N], core::array::TryFromSliceError>)
    ensures s@.len() == N ==> (r is Ok && r->Ok_0@ == s@),
            s@.len() != N ==> r is Err;

pub mod ax { use vstd::prelude::*;
#[verifier::external_body]
pub broadcast proof fn axiom_slice_len_bound(s: &[u8]) ensures #[trigger] s@.len() <= isize::MAX {}
}
broadcast use {ax::axiom_slice_len_bound, ax2::axiom_tuple_key_model, vstd::std_specs::hash::group_hash_axioms};

pub proof fn lemma_index_in_table(i: nat, sz: nat, len: nat)
    requires sz > 0
    ensures i < len / sz <==> i * sz + sz <= len
{
    vstd::arithmetic::div_mod::lemma_fundamental_div_mod(len as int, sz as int);
    vstd::arithmetic::div_mod::lemma_mod_bound(len as int, sz as int);
    let q = len / sz;
    if i < q {
        assert((i + 1) * sz <= q * sz) by (nonlinear_arith) requires i + 1 <= q, sz > 0;
        assert((i + 1) * sz == i * sz + sz) by (nonlinear_arith);
        assert(q * sz == sz * q) by (nonlinear_arith);
    } else {
        assert(q * sz <= i * sz) by (nonlinear_arith) requires q <= i, sz > 0;
        assert(q * sz == sz * q) by (nonlinear_arith);
    }
}
pub open spec fn read_ok(off: usize, w: nat, data: &[u8]) -> bool { off + w <= data@.len() }
pub open spec fn window(off: usize, w: nat, data: &[u8]) -> Seq<u8> { data@.subrange(off as int, off + w) }

pub trait EndianParse: Clone + Copy + Default + PartialEq + Eq {
    spec fn spec_is_little(self) -> bool;

    fn parse_u16_at(self, offset: &mut usize, data: &[u8]) -> (r: Result<u16, ParseError>)
        ensures
            read_ok(*old(offset), 2, data) <==> r is Ok,
            r is Ok ==> *final(offset) == *old(offset) + 2 && r->Ok_0 as nat == uval(self.spec_is_little(), window(*old(offset), 2, data)),
            r is Err ==> *final(offset) == *old(offset),
    {
        let end = (*offset)
            .checked_add(2)
            .ok_or(ParseError::IntegerOverflow)?;

        let buf: [u8; 2] = data
            .get(*offset..end)
            .ok_or(ParseError::SliceReadError((*offset, end)))?
            .try_into()?;

        *offset = end;

        if self.is_little() {
            Ok(shim_u16_from_le_bytes(buf))
        } else {
            Ok(shim_u16_from_be_bytes(buf))
        }
    }
    fn parse_u32_at(self, offset: &mut usize, data: &[u8]) -> (r: Result<u32, ParseError>)
        ensures
            read_ok(*old(offset), 4, data) <==> r is Ok,
            r is Ok ==> *final(offset) == *old(offset) + 4 && r->Ok_0 as nat == uval(self.spec_is_little(), window(*old(offset), 4, data)),
            r is Err ==> *final(offset) == *old(offset),
    {
        let end = (*offset)
            .checked_add(4)
            .ok_or(ParseError::IntegerOverflow)?;

        let buf: [u8; 4] = data
            .get(*offset..end)
            .ok_or(ParseError::SliceReadError((*offset, end)))?
            .try_into()?;

        *offset = end;

        if self.is_little() {
            Ok(shim_u32_from_le_bytes(buf))
        } else {
            Ok(shim_u32_from_be_bytes(buf))
        }
    }
    fn parse_u64_at(self, offset: &mut usize, data: &[u8]) -> (r: Result<u64, ParseError>)
        ensures
            read_ok(*old(offset), 8, data) <==> r is Ok,
            r is Ok ==> *final(offset) == *old(offset) + 8 && r->Ok_0 as nat == uval(self.spec_is_little(), window(*old(offset), 8, data)),
            r is Err ==> *final(offset) == *old(offset),
    {
        let end = (*offset)
            .checked_add(8)
            .ok_or(ParseError::IntegerOverflow)?;

        let buf: [u8; 8] = data
            .get(*offset..end)
            .ok_or(ParseError::SliceReadError((*offset, end)))?
            .try_into()?;

        *offset = end;

        if self.is_little() {
            Ok(shim_u64_from_le_bytes(buf))
        } else {
            Ok(shim_u64_from_be_bytes(buf))
        }
    }
    fn parse_u8_at(self, offset: &mut usize, data: &[u8]) -> (r: Result<u8, ParseError>)
        ensures
            read_ok(*old(offset), 1, data) <==> r is Ok,
            r is Ok ==> *final(offset) == *old(offset) + 1 && r->Ok_0 as nat == uval(self.spec_is_little(), window(*old(offset), 1, data)),
            r is Err ==> *final(offset) == *old(offset),
    {
        let end = (*offset)
            .checked_add(1)
            .ok_or(ParseError::IntegerOverflow)?;

        let buf: [u8; 1] = data
            .get(*offset..end)
            .ok_or(ParseError::SliceReadError((*offset, end)))?
            .try_into()?;

        *offset = end;

        if self.is_little() {
            Ok(shim_u8_from_le_bytes(buf))
        } else {
            Ok(shim_u8_from_be_bytes(buf))
        }
    }
    fn parse_i32_at(self, offset: &mut usize, data: &[u8]) -> (r: Result<i32, ParseError>)
        ensures
            read_ok(*old(offset), 4, data) <==> r is Ok,
            r is Ok ==> *final(offset) == *old(offset) + 4 && r->Ok_0 as int == sval(self.spec_is_little(), window(*old(offset), 4, data)),
            r is Err ==> *final(offset) == *old(offset),
    {
        let end = (*offset)
            .checked_add(4)
            .ok_or(ParseError::IntegerOverflow)?;

        let buf: [u8; 4] = data
            .get(*offset..end)
            .ok_or(ParseError::SliceReadError((*offset, end)))?
            .try_into()?;

        *offset = end;

        if self.is_little() {
            Ok(shim_i32_from_le_bytes(buf))
        } else {
            Ok(shim_i32_from_be_bytes(buf))
        }
    }

    fn from_ei_data(ei_data: u8) -> Result<Self, ParseError>;

    fn is_little(self) -> (r: bool) ensures r == self.spec_is_little();

    #[inline(always)]
    fn is_big(self) -> bool {
        !self.is_little()
    }
}

#[derive(Debug, Copy, Clone, PartialEq, Eq, Structural)]
pub enum Class {
    ELF32,
    ELF64,
}
pub trait ParseAt: Sized {
    /// Parse this type by using the given endian-awareness and ELF class layout.
    /// This is generic on EndianParse in order to allow users to optimize for
    /// their expectations of data layout. See EndianParse for more details.
    spec fn spec_size(class: Class) -> nat;
    proof fn lemma_size_pos(class: Class) ensures Self::spec_size(class) > 0;
    spec fn spec_accepts(little: bool, class: Class, w: Seq<u8>) -> bool;
    spec fn spec_decode(little: bool, class: Class, w: Seq<u8>, b: int) -> Self;
    fn parse_at<E: EndianParse>(
        endian: E,
        class: Class,
        offset: &mut usize,
        data: &[u8],
    ) -> (r: Result<Self, ParseError>)
        ensures
            r is Ok <==> (read_ok(*old(offset), Self::spec_size(class), data) && Self::spec_accepts(endian.spec_is_little(), class, window(*old(offset), Self::spec_size(class), data))),
            r is Ok ==> *final(offset) == *old(offset) + Self::spec_size(class)
                 && r->Ok_0 == Self::spec_decode(endian.spec_is_little(), class, data@, *old(offset) as int),
            r is Err ==> *old(offset) <= *final(offset) <= *old(offset) + Self::spec_size(class),
    ;

    /// Returns the expected size of the type being parsed for the given ELF class
    fn size_for(class: Class) -> (r: usize) ensures r == Self::spec_size(class), r > 0;

    /// Checks whether the given entsize matches what we need to parse this type
    ///
    /// Returns a ParseError for bad/unexpected entsizes that don't match what this type parses.
    fn validate_entsize(class: Class, entsize: usize) -> (r: Result<usize, ParseError>)
        ensures r is Ok <==> entsize == Self::spec_size(class), r is Ok ==> r->Ok_0 == entsize
    {
        let expected = Self::size_for(class);
        match entsize == expected {
            true => Ok(entsize),
            false => Err(ParseError::BadEntsize((entsize as u64, expected as u64))),
        }
    }
}/// Encapsulates the contents of an ELF Section Header
///
/// This is a Rust-native type that represents a Section Header that is bit-width-agnostic.
#[derive(Copy, Clone, Debug, PartialEq, Eq)]
pub struct SectionHeader {
    /// Section Name
    pub sh_name: u32,
    /// Section Type
    pub sh_type: u32,
    /// Section Flags
    pub sh_flags: u64,
    /// in-memory address where this section is loaded
    pub sh_addr: u64,
    /// Byte-offset into the file where this section starts
    pub sh_offset: u64,
    /// Section size in bytes
    pub sh_size: u64,
    /// Defined by section type
    pub sh_link: u32,
    /// Defined by section type
    pub sh_info: u32,
    /// address alignment
    pub sh_addralign: u64,
    /// size of an entry if section data is an array of entries
    pub sh_entsize: u64,
}

pub open spec fn fld(little: bool, w: Seq<u8>, off: int, n: int) -> nat { uval(little, w.subrange(off, off + n)) }
impl ParseAt for SectionHeader {
    open spec fn spec_size(class: Class) -> nat { match class { Class::ELF32 => 40, Class::ELF64 => 64 } }
    proof fn lemma_size_pos(class: Class) {}
    open spec fn spec_accepts(little: bool, class: Class, w: Seq<u8>) -> bool { true }
    open spec fn spec_decode(little: bool, class: Class, w: Seq<u8>, b: int) -> Self {
        match class {
            Class::ELF32 => SectionHeader {
                sh_name: fld(little, w, b + 0, 4) as u32, sh_type: fld(little, w, b + 4, 4) as u32, sh_flags: fld(little, w, b + 8, 4) as u64,
                sh_addr: fld(little, w, b + 12, 4) as u64, sh_offset: fld(little, w, b + 16, 4) as u64, sh_size: fld(little, w, b + 20, 4) as u64,
                sh_link: fld(little, w, b + 24, 4) as u32, sh_info: fld(little, w, b + 28, 4) as u32, sh_addralign: fld(little, w, b + 32, 4) as u64,
                sh_entsize: fld(little, w, b + 36, 4) as u64 },
            Class::ELF64 => SectionHeader {
                sh_name: fld(little, w, b + 0, 4) as u32, sh_type: fld(little, w, b + 4, 4) as u32, sh_flags: fld(little, w, b + 8, 8) as u64,
                sh_addr: fld(little, w, b + 16, 8) as u64, sh_offset: fld(little, w, b + 24, 8) as u64, sh_size: fld(little, w, b + 32, 8) as u64,
                sh_link: fld(little, w, b + 40, 4) as u32, sh_info: fld(little, w, b + 44, 4) as u32, sh_addralign: fld(little, w, b + 48, 8) as u64,
                sh_entsize: fld(little, w, b + 56, 8) as u64 },
        }
    }

    fn parse_at<E: EndianParse>(
        endian: E,
        class: Class,
        offset: &mut usize,
        data: &[u8],
    ) -> Result<Self, ParseError> {
        match class {
            Class::ELF32 => Ok(SectionHeader {
                sh_name: endian.parse_u32_at(offset, data)?,
                sh_type: endian.parse_u32_at(offset, data)?,
                sh_flags: endian.parse_u32_at(offset, data)? as u64,
                sh_addr: endian.parse_u32_at(offset, data)? as u64,
                sh_offset: endian.parse_u32_at(offset, data)? as u64,
                sh_size: endian.parse_u32_at(offset, data)? as u64,
                sh_link: endian.parse_u32_at(offset, data)?,
                sh_info: endian.parse_u32_at(offset, data)?,
                sh_addralign: endian.parse_u32_at(offset, data)? as u64,
                sh_entsize: endian.parse_u32_at(offset, data)? as u64,
            }),
            Class::ELF64 => Ok(SectionHeader {
                sh_name: endian.parse_u32_at(offset, data)?,
                sh_type: endian.parse_u32_at(offset, data)?,
                sh_flags: endian.parse_u64_at(offset, data)?,
                sh_addr: endian.parse_u64_at(offset, data)?,
                sh_offset: endian.parse_u64_at(offset, data)?,
                sh_size: endian.parse_u64_at(offset, data)?,
                sh_link: endian.parse_u32_at(offset, data)?,
                sh_info: endian.parse_u32_at(offset, data)?,
                sh_addralign: endian.parse_u64_at(offset, data)?,
                sh_entsize: endian.parse_u64_at(offset, data)?,
            }),
        }
    }

    #[inline]
    fn size_for(class: Class) -> usize {
        match class {
            Class::ELF32 => 40,
            Class::ELF64 => 64,
        }
    }
}

impl SectionHeader {
    /// Helper method which uses checked integer math to get a tuple of (start,end) for
    /// this SectionHeader's (sh_offset, sh_offset + sh_size)
    pub(crate) fn get_data_range(&self) -> (r: Result<(usize, usize), ParseError>)
        ensures r is Ok <==> self.sh_offset + self.sh_size <= usize::MAX,
            r is Ok ==> r->Ok_0.0 == self.sh_offset && r->Ok_0.1 == self.sh_offset + self.sh_size
    {
        let start: usize = self.sh_offset.try_into()?;
        let size: usize = self.sh_size.try_into()?;
        let end = start.checked_add(size).ok_or(ParseError::IntegerOverflow)?;
        Ok((start, end))
    }
}
/// Lazy-parsing iterator which wraps bytes and parses out a `P: ParseAt` on each `next()`
#[derive(Debug)]
pub struct ParsingIterator<'data, E: EndianParse, P: ParseAt> {
    endian: E,
    class: Class,
    data: &'data [u8],
    offset: usize,
    // This struct doesn't technically own a P, but it yields them
    // as it iterates
    pd: PhantomData<&'data P>,
}

impl<'data, E: EndianParse, P: ParseAt> ParsingIterator<'data, E, P> {
    pub closed spec fn sdata(&self) -> &'data [u8] { self.data }
    pub closed spec fn soffset(&self) -> usize { self.offset }
    pub closed spec fn sclass(&self) -> Class { self.class }
    pub closed spec fn sendian(&self) -> E { self.endian }

    pub fn new(endian: E, class: Class, data: &'data [u8]) -> Self {
        ParsingIterator {
            endian,
            class,
            data,
            offset: 0,
            pd: PhantomData,
        }
    }
}

impl<E: EndianParse, P: ParseAt> vstd::std_specs::iter::IteratorSpecImpl for ParsingIterator<'_, E, P> {
    open spec fn obeys_prophetic_iter_laws(&self) -> bool { false }
    uninterp spec fn remaining(&self) -> Seq<P>;
    uninterp spec fn will_return_none(&self) -> bool;
    uninterp spec fn decrease(&self) -> Option<nat>;
    uninterp spec fn peek(&self, i: int) -> Option<P>;
}
impl<E: EndianParse, P: ParseAt> Iterator for ParsingIterator<'_, E, P> {
    type Item = P;
    fn next(&mut self) -> (r: Option<Self::Item>)
        ensures
            final(self).sdata() == old(self).sdata(), final(self).sclass() == old(self).sclass(), final(self).sendian() == old(self).sendian(),
            r is Some <==> (old(self).sdata()@.len() > 0 && read_ok(old(self).soffset(), P::spec_size(old(self).sclass()), old(self).sdata())
                 && P::spec_accepts(old(self).sendian().spec_is_little(), old(self).sclass(), window(old(self).soffset(), P::spec_size(old(self).sclass()), old(self).sdata()))),
            r is Some ==> final(self).soffset() == old(self).soffset() + P::spec_size(old(self).sclass())
                 && r->Some_0 == P::spec_decode(old(self).sendian().spec_is_little(), old(self).sclass(), old(self).sdata()@, old(self).soffset() as int),
            r is None ==> final(self).soffset() >= old(self).soffset(),
    {
        if self.data.is_empty() {
            return None;
        }

        Self::Item::parse_at(self.endian, self.class, &mut self.offset, self.data).ok()
    }
}

/// Lazy-parsing table which wraps bytes and parses out a `P: ParseAt` at a given index into
/// the table on each `get()`.
#[derive(Debug, Clone, Copy)]
pub struct ParsingTable<'data, E: EndianParse, P: ParseAt> {
    endian: E,
    class: Class,
    data: &'data [u8],
    // This struct doesn't technically own a P, but it yields them
    pd: PhantomData<&'data P>,
}

impl<'data, E: EndianParse, P: ParseAt> ParsingTable<'data, E, P> {
    pub closed spec fn sdata(&self) -> &'data [u8] { self.data }
    pub closed spec fn sclass(&self) -> Class { self.class }
    pub closed spec fn sendian(&self) -> E { self.endian }
    pub open spec fn slen(&self) -> nat { self.sdata()@.len() / P::spec_size(self.sclass()) }

    pub fn new(endian: E, class: Class, data: &'data [u8]) -> (r: Self)
        ensures r.sdata() == data, r.sclass() == class, r.sendian() == endian
    {
        ParsingTable {
            endian,
            class,
            data,
            pd: PhantomData,
        }
    }

    /// Get a lazy-parsing iterator for the table's bytes
    pub fn iter(&self) -> ParsingIterator<'data, E, P> {
        ParsingIterator::new(self.endian, self.class, self.data)
    }

    /// Returns the number of elements of type P in the table.
    pub fn len(&self) -> (r: usize) ensures r == self.slen() {
        self.data.len() / P::size_for(self.class)
    }

    /// Returns whether the table is empty (contains zero elements).
    pub fn is_empty(&self) -> (r: bool) ensures r == (self.slen() == 0) {
        self.len() == 0
    }

    /// Parse the element at `index` in the table.
    pub fn get(&self, index: usize) -> (r: Result<P, ParseError>)
        ensures
            r is Ok <==> (index < self.slen() && P::spec_accepts(self.sendian().spec_is_little(), self.sclass(), self.sdata()@.subrange(index * P::spec_size(self.sclass()), index * P::spec_size(self.sclass()) + P::spec_size(self.sclass())))),
            r is Ok ==> r->Ok_0 == P::spec_decode(self.sendian().spec_is_little(), self.sclass(), self.sdata()@, index * P::spec_size(self.sclass())),
    {
        proof { P::lemma_size_pos(self.sclass()); lemma_index_in_table(index as nat, P::spec_size(self.sclass()), self.sdata()@.len()); }
        if self.data.is_empty() {
            return Err(ParseError::BadOffset(index as u64));
        }

        let entsize = P::size_for(self.class);
        let mut start = index
            .checked_mul(entsize)
            .ok_or(ParseError::IntegerOverflow)?;
        if start > self.data.len() {
            return Err(ParseError::BadOffset(index as u64));
        }

        P::parse_at(self.endian, self.class, &mut start, self.data)
    }
}

impl<'data, E: EndianParse, P: ParseAt> IntoIterator for ParsingTable<'data, E, P> {
    type IntoIter = ParsingIterator<'data, E, P>;
    type Item = P;

    fn into_iter(self) -> Self::IntoIter {
        ParsingIterator::new(self.endian, self.class, self.data)
    }
}

// Simple convenience extension trait to wrap get() with .ok_or(SliceReadError)
pub(crate) trait ReadBytesExt<'data> {
    spec fn sview(self) -> Seq<u8>;
    fn get_bytes(self, range: Range<usize>) -> (r: Result<&'data [u8], ParseError>)
        ensures r is Ok <==> (range.start <= range.end && range.end <= self.sview().len()),
                r is Ok ==> r->Ok_0@ == self.sview().subrange(range.start as int, range.end as int);
}

impl<'data> ReadBytesExt<'data> for &'data [u8] {
    spec fn sview(self) -> Seq<u8> { self@ }
    fn get_bytes(self, range: Range<usize>) -> Result<&'data [u8], ParseError> {
        let start = range.start;
        let end = range.end;
        self.get(range)
            .ok_or(ParseError::SliceReadError((start, end)))
    }
}
global size_of usize == 8;
pub mod abi { pub const PN_XNUM: u16 = 0xffff; }
pub type SectionHeaderTable<'data, E> = ParsingTable<'data, E, SectionHeader>;
pub type SegmentTable<'data, E> = ParsingTable<'data, E, ProgramHeader>;
#[derive(Copy, Clone, Debug, PartialEq, Eq)]
pub struct FileHeader<E: EndianParse> {
    /// 32-bit vs 64-bit
    pub class: Class,
    // file byte order
    pub endianness: E,
    /// elf version
    pub version: u32,
    /// OS ABI
    pub osabi: u8,
    /// Version of the OS ABI
    pub abiversion: u8,
    /// ELF file type
    pub e_type: u16,
    /// Target machine architecture
    pub e_machine: u16,
    /// Virtual address of program entry point
    /// This member gives the virtual address to which the system first transfers control,
    /// thus starting the process. If the file has no associated entry point, this member holds zero.
    ///
    /// Note: Type is Elf32_Addr or Elf64_Addr which are either 4 or 8 bytes. We aren't trying to zero-copy
    /// parse the FileHeader since there's only one per file and its only ~45 bytes anyway, so we use
    /// u64 for the three Elf*_Addr and Elf*_Off fields here.
    pub e_entry: u64,
    /// This member holds the program header table's file offset in bytes. If the file has no program header
    /// table, this member holds zero.
    pub e_phoff: u64,
    /// This member holds the section header table's file offset in bytes. If the file has no section header
    /// table, this member holds zero.
    pub e_shoff: u64,
    /// This member holds processor-specific flags associated with the file. Flag names take the form EF_machine_flag.
    pub e_flags: u32,
    /// This member holds the ELF header's size in bytes.
    pub e_ehsize: u16,
    /// This member holds the size in bytes of one entry in the file's program header table; all entries are the same size.
    pub e_phentsize: u16,
    /// This member holds the number of entries in the program header table. Thus the product of e_phentsize and e_phnum
    /// gives the table's size in bytes. If a file has no program header table, e_phnum holds the value zero.
    pub e_phnum: u16,
    /// This member holds a section header's size in bytes. A section header is one entry in the section header table;
    /// all entries are the same size.
    pub e_shentsize: u16,
    /// This member holds the number of entries in the section header table. Thus the product of e_shentsize and e_shnum
    /// gives the section header table's size in bytes. If a file has no section header table, e_shnum holds the value zero.
    ///
    /// If the number of sections is greater than or equal to SHN_LORESERVE (0xff00), this member has the value zero and
    /// the actual number of section header table entries is contained in the sh_size field of the section header at index 0.
    /// (Otherwise, the sh_size member of the initial entry contains 0.)
    pub e_shnum: u16,
    /// This member holds the section header table index of the entry associated with the section name string table. If the
    /// file has no section name string table, this member holds the value SHN_UNDEF.
    ///
    /// If the section name string table section index is greater than or equal to SHN_LORESERVE (0xff00), this member has
    /// the value SHN_XINDEX (0xffff) and the actual index of the section name string table section is contained in the
    /// sh_link field of the section header at index 0. (Otherwise, the sh_link member of the initial entry contains 0.)
    pub e_shstrndx: u16,
}
#[derive(Copy, Clone, Debug, PartialEq, Eq)]
pub struct ProgramHeader {
    /// Program segment type
    pub p_type: u32,
    /// Offset into the ELF file where this segment begins
    pub p_offset: u64,
    /// Virtual adress where this segment should be loaded
    pub p_vaddr: u64,
    /// Physical address where this segment should be loaded
    pub p_paddr: u64,
    /// Size of this segment in the file
    pub p_filesz: u64,
    /// Size of this segment in memory
    pub p_memsz: u64,
    /// Flags for this segment
    pub p_flags: u32,
    /// file and memory alignment
    pub p_align: u64,
}

impl ParseAt for ProgramHeader {
    open spec fn spec_size(class: Class) -> nat { match class { Class::ELF32 => 32, Class::ELF64 => 56 } }
    proof fn lemma_size_pos(class: Class) {}
    open spec fn spec_accepts(little: bool, class: Class, w: Seq<u8>) -> bool { true }
    open spec fn spec_decode(little: bool, class: Class, w: Seq<u8>, b: int) -> Self {
        match class {
            Class::ELF32 => ProgramHeader { p_type: fld(little, w, b, 4) as u32, p_offset: fld(little, w, b + 4, 4) as u64, p_vaddr: fld(little, w, b + 8, 4) as u64,
                p_paddr: fld(little, w, b + 12, 4) as u64, p_filesz: fld(little, w, b + 16, 4) as u64, p_memsz: fld(little, w, b + 20, 4) as u64,
                p_flags: fld(little, w, b + 24, 4) as u32, p_align: fld(little, w, b + 28, 4) as u64 },
            Class::ELF64 => ProgramHeader { p_type: fld(little, w, b, 4) as u32, p_flags: fld(little, w, b + 4, 4) as u32, p_offset: fld(little, w, b + 8, 8) as u64,
                p_vaddr: fld(little, w, b + 16, 8) as u64, p_paddr: fld(little, w, b + 24, 8) as u64, p_filesz: fld(little, w, b + 32, 8) as u64,
                p_memsz: fld(little, w, b + 40, 8) as u64, p_align: fld(little, w, b + 48, 8) as u64 },
        }
    }

    fn parse_at<E: EndianParse>(
        endian: E,
        class: Class,
        offset: &mut usize,
        data: &[u8],
    ) -> Result<Self, ParseError> {
        if class == Class::ELF32 {
            return Ok(ProgramHeader {
                p_type: endian.parse_u32_at(offset, data)?,
                p_offset: endian.parse_u32_at(offset, data)? as u64,
                p_vaddr: endian.parse_u32_at(offset, data)? as u64,
                p_paddr: endian.parse_u32_at(offset, data)? as u64,
                p_filesz: endian.parse_u32_at(offset, data)? as u64,
                p_memsz: endian.parse_u32_at(offset, data)? as u64,
                p_flags: endian.parse_u32_at(offset, data)?,
                p_align: endian.parse_u32_at(offset, data)? as u64,
            });
        }

        // Note: 64-bit fields are in a different order
        let p_type = endian.parse_u32_at(offset, data)?;
        let p_flags = endian.parse_u32_at(offset, data)?;
        let p_offset = endian.parse_u64_at(offset, data)?;
        let p_vaddr = endian.parse_u64_at(offset, data)?;
        let p_paddr = endian.parse_u64_at(offset, data)?;
        let p_filesz = endian.parse_u64_at(offset, data)?;
        let p_memsz = endian.parse_u64_at(offset, data)?;
        let p_align = endian.parse_u64_at(offset, data)?;
        Ok(ProgramHeader {
            p_type,
            p_offset,
            p_vaddr,
            p_paddr,
            p_filesz,
            p_memsz,
            p_flags,
            p_align,
        })
    }

    #[inline]
    fn size_for(class: Class) -> usize {
        match class {
            Class::ELF32 => 32,
            Class::ELF64 => 56,
        }
    }
}

impl ProgramHeader {
    /// Helper method which uses checked integer math to get a tuple of (start, end) for
    /// the location in bytes for this ProgramHeader's data in the file.
    /// i.e. (p_offset, p_offset + p_filesz)
    pub(crate) fn get_file_data_range(&self) -> Result<(usize, usize), ParseError> {
        let start: usize = self.p_offset.try_into()?;
        let size: usize = self.p_filesz.try_into()?;
        let end = start.checked_add(size).ok_or(ParseError::IntegerOverflow)?;
        Ok((start, end))
    }
}
pub open spec fn spec_shnum<E: EndianParse>(ehdr: &FileHeader<E>, d: Seq<u8>) -> nat {
    if ehdr.e_shnum != 0 { ehdr.e_shnum as nat }
    else { SectionHeader::spec_decode(ehdr.endianness.spec_is_little(), ehdr.class, d, ehdr.e_shoff as int).sh_size as nat }
}
fn find_shdrs<'data, E: EndianParse>(
    ehdr: &FileHeader<E>,
    data: &'data [u8],
) -> (r: Result<Option<SectionHeaderTable<'data, E>>, ParseError>)
    ensures
        ehdr.e_shoff == 0 ==> r is Ok && r->Ok_0 is None,
        ehdr.e_shoff != 0 && r is Ok ==> r->Ok_0 is Some && ({ let t = r->Ok_0->Some_0; let n = spec_shnum(ehdr, data@);
              ehdr.e_shentsize as nat == SectionHeader::spec_size(ehdr.class)
              && t.sclass() == ehdr.class && t.sendian() == ehdr.endianness
              && ehdr.e_shoff + n * SectionHeader::spec_size(ehdr.class) <= data@.len()
              && t.sdata()@ == data@.subrange(ehdr.e_shoff as int, ehdr.e_shoff + n * SectionHeader::spec_size(ehdr.class)) }),
        ehdr.e_shoff != 0 && ehdr.e_shentsize as nat != SectionHeader::spec_size(ehdr.class) ==> r is Err,
        ehdr.e_shoff != 0 && (ehdr.e_shnum != 0 || ehdr.e_shoff + SectionHeader::spec_size(ehdr.class) <= data@.len())
            && ehdr.e_shoff + spec_shnum(ehdr, data@) * SectionHeader::spec_size(ehdr.class) > data@.len() ==> r is Err,
{
    // It's Ok to have no section headers
    if ehdr.e_shoff == 0 {
        return Ok(None);
    }

    // If the number of sections is greater than or equal to SHN_LORESERVE (0xff00),
    // e_shnum is zero and the actual number of section header table entries
    // is contained in the sh_size field of the section header at index 0.
    let shoff: usize = ehdr.e_shoff.try_into()?;
    let mut shnum = ehdr.e_shnum as usize;
    if shnum == 0 {
        let mut offset = shoff;
        let shdr0 = SectionHeader::parse_at(ehdr.endianness, ehdr.class, &mut offset, data)?;
        shnum = shdr0.sh_size.try_into()?;
    }

    // Validate shentsize before trying to read the table so that we can error early for corrupted files
    let entsize = SectionHeader::validate_entsize(ehdr.class, ehdr.e_shentsize as usize)?;

    proof { assert(entsize * shnum == shnum * entsize) by (nonlinear_arith); }
    let size = entsize
        .checked_mul(shnum)
        .ok_or(ParseError::IntegerOverflow)?;
    let end = shoff.checked_add(size).ok_or(ParseError::IntegerOverflow)?;
    let buf = data.get_bytes(shoff..end)?;
    Ok(Some(SectionHeaderTable::new(
        ehdr.endianness,
        ehdr.class,
        buf,
    )))
}

/// Find the location (if any) of the program headers in the given data buffer and take a
/// subslice of their data and wrap it in a lazy-parsing SegmentTable.
fn find_phdrs<'data, E: EndianParse>(
    ehdr: &FileHeader<E>,
    data: &'data [u8],
) -> Result<Option<SegmentTable<'data, E>>, ParseError> {
    // It's Ok to have no program headers
    if ehdr.e_phoff == 0 {
        return Ok(None);
    }

    // If the number of segments is greater than or equal to PN_XNUM (0xffff),
    // e_phnum is set to PN_XNUM, and the actual number of program header table
    // entries is contained in the sh_info field of the section header at index 0.
    let mut phnum = ehdr.e_phnum as usize;
    if phnum == abi::PN_XNUM as usize {
        let shoff: usize = ehdr.e_shoff.try_into()?;
        let mut offset = shoff;
        let shdr0 = SectionHeader::parse_at(ehdr.endianness, ehdr.class, &mut offset, data)?;
        phnum = shdr0.sh_info.try_into()?;
    }

    // Validate phentsize before trying to read the table so that we can error early for corrupted files
    let entsize = ProgramHeader::validate_entsize(ehdr.class, ehdr.e_phentsize as usize)?;

    let phoff: usize = ehdr.e_phoff.try_into()?;
    let size = entsize
        .checked_mul(phnum)
        .ok_or(ParseError::IntegerOverflow)?;
    let end = phoff.checked_add(size).ok_or(ParseError::IntegerOverflow)?;
    let buf = data.get_bytes(phoff..end)?;
    Ok(Some(SegmentTable::new(ehdr.endianness, ehdr.class, buf)))
}
#[verifier::external_type_specification]
#[verifier::external_body]
pub struct ExIoError(std::io::Error);
#[verifier::external_type_specification]
pub struct ExSeekFrom(std::io::SeekFrom);

pub uninterp spec fn stream_contents<R: ?Sized>(r: &R) -> Seq<u8>;
pub uninterp spec fn stream_pos<R: ?Sized>(r: &R) -> nat;
pub uninterp spec fn io_log<R: ?Sized>(r: &R) -> Seq<(nat, nat)>;
pub uninterp spec fn healthy<R: ?Sized>(r: &R) -> bool;

#[verifier::external_trait_specification]
pub trait ExRead {
    type ExternalTraitSpecificationFor: std::io::Read;
    fn read(&mut self, buf: &mut [u8]) -> (r: std::io::Result<usize>)
        ensures
            stream_contents(final(self)) == stream_contents(old(self)),
            final(buf)@.len() == old(buf)@.len(),
            r is Ok ==> r->Ok_0 <= old(buf)@.len() && stream_pos(old(self)) + r->Ok_0 <= stream_contents(old(self)).len()
                && final(buf)@.subrange(0, r->Ok_0 as int) == stream_contents(old(self)).subrange(stream_pos(old(self)) as int, (stream_pos(old(self)) + r->Ok_0) as int)
                && stream_pos(final(self)) == stream_pos(old(self)) + r->Ok_0;
    fn read_exact(&mut self, buf: &mut [u8]) -> (r: std::io::Result<()>)
        ensures
            io_log(final(self)) == io_log(old(self)).push((stream_pos(old(self)), old(buf)@.len() as nat)),
            healthy(old(self)) ==> healthy(final(self)),
            healthy(old(self)) && stream_pos(old(self)) + old(buf)@.len() <= stream_contents(old(self)).len() ==> r is Ok,
            stream_contents(final(self)) == stream_contents(old(self)),
            final(buf)@.len() == old(buf)@.len(),
            r is Ok ==> stream_pos(old(self)) + old(buf)@.len() <= stream_contents(old(self)).len()
                && final(buf)@ == stream_contents(old(self)).subrange(stream_pos(old(self)) as int, (stream_pos(old(self)) + old(buf)@.len()) as int)
                && stream_pos(final(self)) == stream_pos(old(self)) + old(buf)@.len();
}
#[verifier::external_trait_specification]
pub trait ExSeek {
    type ExternalTraitSpecificationFor: std::io::Seek;
    fn seek(&mut self, pos: SeekFrom) -> (r: std::io::Result<u64>)
        ensures
            io_log(final(self)) == io_log(old(self)),
            healthy(old(self)) ==> healthy(final(self)) && (pos is Start || pos is End ==> r is Ok),
            stream_contents(final(self)) == stream_contents(old(self)),
            r is Ok ==> match pos {
                SeekFrom::Start(n) => stream_pos(final(self)) == n && r->Ok_0 == n,
                SeekFrom::End(d) => stream_pos(final(self)) == stream_contents(old(self)).len() + d && r->Ok_0 == stream_contents(old(self)).len() + d,
                SeekFrom::Current(d) => stream_pos(final(self)) == stream_pos(old(self)) + d && r->Ok_0 == stream_pos(old(self)) + d,
            };
}

pub assume_specification<T, A: std::alloc::Allocator> [std::vec::Vec::<T, A>::into_boxed_slice] (v: std::vec::Vec<T, A>) -> (b: std::boxed::Box<[T], A>)
    ensures b@ == v@;


impl From<std::io::Error> for ParseError {
    #[verifier::external_body]
    fn from(err: std::io::Error) -> ParseError { ParseError::IOError(err) }
}
impl vstd::std_specs::convert::FromSpecImpl<std::io::Error> for ParseError {
    open spec fn obeys_from_spec() -> bool { true }
    open spec fn from_spec(v: std::io::Error) -> Self { ParseError::IOError(v) }
}
pub mod abi2 { pub const SHT_NOBITS: u32 = 8; pub const SHF_COMPRESSED: u32 = 1 << 11; }
pub struct CompressionHeader {
    pub ch_type: u32,
    pub ch_size: u64,
    pub ch_addralign: u64,
}

impl ParseAt for CompressionHeader {
    open spec fn spec_size(class: Class) -> nat { match class { Class::ELF32 => 12, Class::ELF64 => 24 } }
    proof fn lemma_size_pos(class: Class) {}
    open spec fn spec_accepts(little: bool, class: Class, w: Seq<u8>) -> bool { true }
    open spec fn spec_decode(little: bool, class: Class, w: Seq<u8>, b: int) -> Self {
        match class {
            Class::ELF32 => CompressionHeader { ch_type: fld(little, w, b, 4) as u32, ch_size: fld(little, w, b + 4, 4) as u64, ch_addralign: fld(little, w, b + 8, 4) as u64 },
            Class::ELF64 => CompressionHeader { ch_type: fld(little, w, b, 4) as u32, ch_size: fld(little, w, b + 8, 8) as u64, ch_addralign: fld(little, w, b + 16, 8) as u64 },
        }
    }

    fn parse_at<E: EndianParse>(
        endian: E,
        class: Class,
        offset: &mut usize,
        data: &[u8],
    ) -> Result<Self, ParseError> {
        match class {
            Class::ELF32 => Ok(CompressionHeader {
                ch_type: endian.parse_u32_at(offset, data)?,
                ch_size: endian.parse_u32_at(offset, data)? as u64,
                ch_addralign: endian.parse_u32_at(offset, data)? as u64,
            }),
            Class::ELF64 => {
                let ch_type = endian.parse_u32_at(offset, data)?;
                let _ch_reserved = endian.parse_u32_at(offset, data)?;
                Ok(CompressionHeader {
                    ch_type,
                    ch_size: endian.parse_u64_at(offset, data)?,
                    ch_addralign: endian.parse_u64_at(offset, data)?,
                })
            }
        }
    }

    #[inline]
    fn size_for(class: Class) -> usize {
        match class {
            Class::ELF32 => 12,
            Class::ELF64 => 24,
        }
    }
}
#[derive(Debug)]
struct CachingReader<R: Read + Seek> {
    reader: R,
    stream_len: u64,
    bufs: HashMap<(usize, usize), Box<[u8]>>,
}

pub mod ax2 { use vstd::prelude::*;
#[verifier::external_body]
pub broadcast proof fn axiom_tuple_key_model()
    ensures #[trigger] vstd::std_specs::hash::obeys_key_model::<(usize, usize)>() {}
}


impl<R: Read + Seek> CachingReader<R> {
    pub closed spec fn contents(&self) -> Seq<u8> { stream_contents(&self.reader) }
    pub closed spec fn loaded(&self, s: usize, e: usize) -> bool { self.bufs@.contains_key((s, e)) }
    pub closed spec fn cached(&self, s: usize, e: usize) -> Seq<u8> { self.bufs@[(s, e)]@ }
    pub closed spec fn slen(&self) -> u64 { self.stream_len }
    pub closed spec fn log(&self) -> Seq<(nat, nat)> { io_log(&self.reader) }
    pub closed spec fn is_healthy(&self) -> bool { healthy(&self.reader) }
    pub closed spec fn wf(&self) -> bool {
        &&& self.stream_len == stream_contents(&self.reader).len()
        &&& forall|k: (usize, usize)| #[trigger] self.bufs@.contains_key(k) ==> k.0 <= k.1 && k.1 <= self.stream_len
              && self.bufs@[k]@ == stream_contents(&self.reader).subrange(k.0 as int, k.1 as int)
    }
    fn new(mut reader: R) -> (r: Result<Self, ParseError>)
        ensures r is Ok ==> r->Ok_0.wf() && r->Ok_0.contents() == stream_contents(&reader)
            && (forall|s: usize, e: usize| !r->Ok_0.loaded(s, e))
    {
        // Cache the size of the stream so that we can err (rather than OOM) on invalid
        // huge read requests.
        let stream_len = reader.seek(SeekFrom::End(0))?;
        Ok(CachingReader {
            reader,
            stream_len,
            bufs: HashMap::<(usize, usize), Box<[u8]>>::default(),
        })
    }

    fn read_bytes(&mut self, start: usize, end: usize) -> (r: Result<&[u8], ParseError>)
        requires old(self).wf(), start <= end
        ensures final(self).wf(), final(self).contents() == old(self).contents(),
            r is Ok ==> end <= old(self).contents().len() && r->Ok_0@ == old(self).contents().subrange(start as int, end as int),
            end > old(self).contents().len() ==> r is Err,
            old(self).is_healthy() ==> final(self).is_healthy() && (r is Ok <==> end <= old(self).contents().len()),
    {
        self.load_bytes(start..end)?;
        Ok(self.get_bytes(start..end))
    }

    fn get_bytes(&self, range: Range<usize>) -> (r: &[u8])
        requires self.wf(), self.loaded(range.start, range.end)
        ensures r@ == self.contents().subrange(range.start as int, range.end as int)
    {
        // It's a programmer error to call get_bytes without first calling load_bytes, so
        // we want to panic here.
        self.bufs
            .get(&(range.start, range.end))
            .expect("load_bytes must be called before get_bytes for every range")
    }

    fn load_bytes(&mut self, range: Range<usize>) -> (r: Result<(), ParseError>)
        requires old(self).wf(), range.start <= range.end
        ensures final(self).wf(), final(self).contents() == old(self).contents(),
            r is Ok ==> final(self).loaded(range.start, range.end),
            forall|s: usize, e: usize| old(self).loaded(s, e) ==> final(self).loaded(s, e),
            r is Err ==> (forall|s: usize, e: usize| final(self).loaded(s, e) == old(self).loaded(s, e)),
            range.end > old(self).contents().len() ==> r is Err,
            final(self).log() == old(self).log() || final(self).log() == old(self).log().push((range.start as nat, (range.end - range.start) as nat)),
            old(self).loaded(range.start, range.end) ==> final(self).log() == old(self).log(),
            old(self).is_healthy() ==> final(self).is_healthy() && (r is Ok <==> range.end <= old(self).contents().len()),
    {
        if self.bufs.contains_key(&(range.start, range.end)) {
            return Ok(());
        }

        // Verify that the read range doesn't go past the end of the stream (corrupted files)
        let end = range.end as u64;
        if end > self.stream_len {
            return Err(ParseError::BadOffset(end));
        }

        self.reader.seek(SeekFrom::Start(range.start as u64))?;
        assert(range.end - range.start <= self.stream_len); // C08.alloc_bounded (spliced obligation)
        let mut bytes = vec![0; range.len()].into_boxed_slice();
        self.reader.read_exact(&mut bytes)?;
        self.bufs.insert((range.start, range.end), bytes);
        Ok(())
    }

    fn clear_cache(&mut self) {
        self.bufs.clear()
    }
}

#[derive(Debug)]
pub struct ElfStream<E: EndianParse, S: std::io::Read + std::io::Seek> {
    pub ehdr: FileHeader<E>,
    shdrs: Vec<SectionHeader>,
    phdrs: Vec<ProgramHeader>,
    reader: CachingReader<S>,
}
pub open spec fn spec_section_data_ok(d: Seq<u8>, shdr: &SectionHeader, class: Class) -> bool {
    shdr.sh_type == 8 || (shdr.sh_offset + shdr.sh_size <= usize::MAX && shdr.sh_offset + shdr.sh_size <= d.len()
        && (shdr.sh_flags & ((1u32 << 11) as u64) != 0 ==> CompressionHeader::spec_size(class) <= shdr.sh_size))
}
pub open spec fn spec_section_bytes(d: Seq<u8>, shdr: &SectionHeader, class: Class) -> Seq<u8> {
    if shdr.sh_type == 8 { Seq::empty() }
    else if shdr.sh_flags & ((1u32 << 11) as u64) == 0 { d.subrange(shdr.sh_offset as int, shdr.sh_offset + shdr.sh_size) }
    else { d.subrange(shdr.sh_offset + CompressionHeader::spec_size(class), shdr.sh_offset + shdr.sh_size) }
}
impl<E: EndianParse, S: std::io::Read + std::io::Seek> ElfStream<E, S> {
    pub closed spec fn inv(&self) -> bool { self.reader.wf() }
    pub closed spec fn s_class(&self) -> Class { self.ehdr.class }
    pub closed spec fn contents(&self) -> Seq<u8> { self.reader.contents() }
    pub closed spec fn is_healthy(&self) -> bool { self.reader.is_healthy() }
    pub fn section_data(
        &mut self,
        shdr: &SectionHeader,
    ) -> (r: Result<(&[u8], Option<CompressionHeader>), ParseError>)
        requires old(self).inv()
        ensures final(self).inv(), final(self).contents() == old(self).contents(),
            r is Ok ==> spec_section_data_ok(old(self).contents(), shdr, old(self).s_class())
                 && r->Ok_0.0@ == spec_section_bytes(old(self).contents(), shdr, old(self).s_class()),
            old(self).is_healthy() && spec_section_data_ok(old(self).contents(), shdr, old(self).s_class()) ==> r is Ok,
    {
        if shdr.sh_type == abi2::SHT_NOBITS {
            return Ok((&[], None));
        }

        let (start, end) = shdr.get_data_range()?;
        let buf = self.reader.read_bytes(start, end)?;

        if shdr.sh_flags & abi2::SHF_COMPRESSED as u64 == 0 {
            Ok((buf, None))
        } else {
            let mut offset = 0;
            let chdr = CompressionHeader::parse_at(
                self.ehdr.endianness,
                self.ehdr.class,
                &mut offset,
                buf,
            )?;
            let compressed_buf = buf.get(offset..).ok_or(ParseError::SliceReadError((
                offset,
                shdr.sh_size.try_into()?,
            )))?;
            Ok((compressed_buf, Some(chdr)))
        }
    }
}
}
fn main(){}
