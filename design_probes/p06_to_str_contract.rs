use vstd::prelude::*;
verus! {
pub mod abi { pub const ET_NONE: u16 = 0; pub const ET_REL: u16 = 1; pub const ET_EXEC: u16 = 2; pub const SHF_X: u32 = 1 << 11; }
pub open spec fn name_val_e_type(s: &str, v: u16) -> bool {
    ||| (s == "ET_NONE" && v == 0)
    ||| (s == "ET_REL" && v == 1)
    ||| (s == "ET_EXEC" && v == 2)
}
pub fn e_type_to_str(e_type: u16) -> (r: Option<&'static str>)
    ensures r is Some ==> name_val_e_type(r->Some_0, e_type)
{
    match e_type {
        abi::ET_NONE => Some("ET_NONE"),
        abi::ET_REL => Some("ET_REL"),
        abi::ET_EXEC => Some("ET_EXEC"),
        _ => None,
    }
}
proof fn consts() ensures abi::SHF_X == 0x800u32, abi::ET_EXEC == 2 { assert(abi::SHF_X == 0x800u32) by (compute_only); }
}
fn main(){}
