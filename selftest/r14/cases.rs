// Synthetic callers/helpers exercising rule R14 (beta-reduction of new private helpers).  tools/r14_selftest.py compiles this
// file twice -- as written, and with every helper call beta-reduced by the extractor's own code -- and compares the printed
// results of `main` (same inputs, incl. error paths, argument-evaluation order and shadowing traps).
#[derive(Debug, PartialEq)]
pub enum ParseError { Overflow, Short((usize, usize)), Bad(u8) }
mod vp { use super::ParseError; pub fn r14_res<T>(r: Result<T, ParseError>) -> Result<T, ParseError> { r } }

// 1. &mut identifier argument (re-borrow), const generic by turbofish, `?` and `return Err` inside the helper
fn take<const N: usize>(offset: &mut usize, data: &[u8]) -> Result<[u8; N], ParseError> {
    let start = *offset;
    let end = match start.checked_add(N) { Some(e) => e, None => return Err(ParseError::Overflow) };
    let Some(s) = data.get(start..end) else { return Err(ParseError::Short((start, end))) };
    let mut out = [0u8; N];
    out.copy_from_slice(s);
    *offset = end;
    Ok(out)
}
fn read_u16_then_u8(offset: &mut usize, data: &[u8]) -> Result<(u16, u8), ParseError> {
    let a = take::<2>(offset, data)?;
    let b = take::<1>(offset, data)?;
    Ok((u16::from_le_bytes(a), b[0]))
}
// 2. parameter names that collide with the caller's variables in swapped order (capture trap), argument side effects in order
fn sub_checked(a: usize, b: usize) -> Result<usize, ParseError> { a.checked_sub(b).ok_or(ParseError::Overflow) }
fn swapped(b: usize, a: usize, log: &mut Vec<u8>) -> Result<usize, ParseError> {
    let r = sub_checked({ log.push(1); b }, { log.push(2); a })?;
    Ok(r + a)
}
// 3. &self helper and Self:: helper, helper without `?`/`return` used as a plain expression
struct T { v: Vec<u8> }
impl T {
    fn at(&self, i: usize) -> Result<u8, ParseError> { self.v.get(i).copied().ok_or(ParseError::Short((i, self.v.len()))) }
    fn scale(x: u8) -> u32 { let y = x as u32; y * 3 + 1 }
    fn checked(x: u8) -> Result<u8, ParseError> { if x == 0xff { return Err(ParseError::Bad(x)); } Ok(x) }
    fn sum2(&self, i: usize, j: usize) -> Result<u32, ParseError> {
        let a = self.at(i)?;
        let b = Self::checked(self.at(j)?)?;
        Ok(Self::scale(a) + Self::scale(b))
    }
}
// 4. shadowing: the helper's local has the name of a caller variable that is used AFTER the call
fn pad(off: usize, align: usize) -> Result<usize, ParseError> {
    let rem = off % align;
    let off = if rem > 0 { off.checked_add(align - rem).ok_or(ParseError::Overflow)? } else { off };
    Ok(off)
}
fn two_pads(off: usize, align: usize) -> Result<(usize, usize, usize), ParseError> {
    let rem = 7usize;
    let a = pad(off, align)?;
    let b = pad(a + 1, align)?;
    Ok((a, b, rem + off))
}
fn main() {
    let data = [1u8, 2, 3, 4, 5];
    for start in [0usize, 1, 3, 4, 5, usize::MAX - 1] { let mut o = start; let r = read_u16_then_u8(&mut o, &data); println!("read {start}: {r:?} off={o}"); }
    for (b, a) in [(5usize, 3usize), (3, 5), (0, 0)] { let mut log = vec![]; let r = swapped(b, a, &mut log); println!("swapped {b} {a}: {r:?} {log:?}"); }
    let t = T { v: vec![1, 0xff, 7] };
    for (i, j) in [(0usize, 2usize), (0, 1), (2, 9), (9, 0)] { println!("sum2 {i} {j}: {:?}", t.sum2(i, j)); }
    for (o, al) in [(0usize, 4usize), (5, 4), (13, 8), (usize::MAX - 2, 8)] { println!("pads {o} {al}: {:?}", two_pads(o, al)); }
    main2();
}
// 5. tail-position call: the helper's `?` / early `return Ok(..)` keep their meaning when reduced at the end of the caller
fn find_first(v: &[u8], want: u8, limit: usize) -> Result<Option<usize>, ParseError> {
    if limit == 0 { return Ok(None); }
    for (i, x) in v.iter().enumerate() { if i >= limit { return Err(ParseError::Short((i, limit))); } if *x == want { return Ok(Some(i)); } }
    let n = sub_checked(v.len(), limit)?;
    Ok(if n == 0 { None } else { Some(usize::MAX) })
}
fn first_seven(v: &[u8]) -> Result<Option<usize>, ParseError> {
    let limit = v.len().min(4);
    find_first(v, 7, limit)
}
pub fn main2() {
    for v in [&[1u8, 7, 3][..], &[1, 2, 3, 4, 7], &[], &[9, 9, 9, 9]] { println!("first_seven {v:?}: {:?}", first_seven(v)); }
}
