#!/usr/bin/env python3
"""selftest -- apply each catalogued source edit to a scratch copy of the repository and run the checks.

For every edit: the properties listed in `breaks` must report VIOLATION (exit 1); the properties in
`holds` must stay exit 0.  exit 2 (undecided) is reported separately.  The scratch copy lives under
a mkdtemp directory and is removed after each edit.
usage: tools/selftest.py [name-substring ...]
"""
import os, sys, json, shutil, subprocess, tempfile, tomllib, time
ROOT = os.path.dirname(os.path.dirname(os.path.abspath(__file__)))
REPO = os.environ.get('VERIF_REPO', '/repo')
cat = tomllib.load(open(os.path.join(ROOT, 'selftest', 'catalogue.toml'), 'rb'))
sel = sys.argv[1:]
rows = []
for m in cat['edit']:
    if sel and not any(s in m['name'] for s in sel): continue
    tmp = tempfile.mkdtemp(prefix='selftest_')
    try:
        shutil.copytree(os.path.join(REPO, 'src'), os.path.join(tmp, 'src'))
        for f_ in ('Cargo.toml', 'Cargo.lock'): shutil.copy(os.path.join(REPO, f_), tmp)
        p = os.path.join(tmp, m['file'])
        s = open(p).read()
        n = s.count(m['find'])
        if n != m.get('count', 1):
            rows.append((m['name'], 'EDIT-DOES-NOT-APPLY (%d matches)' % n)); continue
        s = s.replace(m['find'], m['replace'])
        open(p, 'w').write(s)
        res = {}
        for prop in m.get('breaks', []) + m.get('holds', []):
            t0 = time.time()
            r = subprocess.run([os.path.join(ROOT, 'check'), prop, '--no-evidence'], capture_output=True, text=True,
                               env=dict(os.environ, VERIF_REPO=tmp, VERIF_NO_REPLAY_SEARCH='1'))
            first = (r.stdout.strip().splitlines() or [''])[0][:160]
            res[prop] = (r.returncode, first, time.time() - t0)
        ok = all(res[p][0] == 1 for p in m.get('breaks', [])) and all(res[p][0] == 0 for p in m.get('holds', []))
        rows.append((m['name'], 'OK' if ok else 'MISMATCH', {p: (res[p][0], res[p][1]) for p in res}))
    finally:
        shutil.rmtree(tmp, ignore_errors=True)
bad = 0
for r in rows:
    print(r[0], '->', r[1])
    if len(r) > 2:
        for p, (rc, line) in r[2].items():
            print('     %s rc=%d %s' % (p, rc, line))
    if r[1] != 'OK': bad += 1
print('%d edits, %d not as expected' % (len(rows), bad))
sys.exit(1 if bad else 0)
