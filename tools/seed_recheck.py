#!/usr/bin/env python3
"""seed_recheck -- re-run checks against the kept seeded changes (seeded/<id>/patch.diff) on a scratch copy of /repo/src.
usage: seed_recheck.py [id-substring ...]     (expected verdicts come from seeded/<id>/expect.json if present)"""
import os, sys, json, shutil, subprocess, tempfile, re
ROOT = os.path.dirname(os.path.dirname(os.path.abspath(__file__)))
sel = sys.argv[1:]
from concurrent.futures import ThreadPoolExecutor
JOBS = int(os.environ.get('VERIF_SEED_JOBS', '3'))
def one(sid):
    d = os.path.join(ROOT, 'seeded', sid); bad = 0
    meta = json.load(open(os.path.join(d, 'meta.json')))
    if meta.get('retired'):
        return '%s RETIRED: %s' % (sid, meta['retired'][:120]), 0
    exp = json.load(open(os.path.join(d, 'expect.json'))) if os.path.exists(os.path.join(d, 'expect.json')) else {meta['breaks_property']: 1}
    tmp = tempfile.mkdtemp(prefix='seedre_')
    try:
        shutil.copytree('/repo/src', os.path.join(tmp, 'src'))
        for f in ('Cargo.toml', 'Cargo.lock'):
            shutil.copy(os.path.join('/repo', f), tmp)
        r = subprocess.run(['patch', '-p1', '-s', '-i', os.path.join(d, 'patch.diff')], cwd=tmp, capture_output=True, text=True)
        if r.returncode != 0:
            return '%s PATCH DOES NOT APPLY %s %s' % (sid, r.stdout[-200:], r.stderr[-200:]), 1
        out = {}
        # verdicts that need the bounded replay search (an undecided function whose failing input is found and replayed)
        exp_rs = json.load(open(os.path.join(d, 'expect_with_replay_search.json'))) if os.path.exists(os.path.join(d, 'expect_with_replay_search.json')) else {}
        for prop, want in list(exp.items()) + [(k + '+search', v) for k, v in exp_rs.items()]:
            env = dict(os.environ, VERIF_REPO=tmp, VERIF_NO_REPLAY_SEARCH='1')
            if prop.endswith('+search'): env.pop('VERIF_NO_REPLAY_SEARCH')
            p = subprocess.run([os.path.join(ROOT, 'check'), prop.split('+')[0], '--no-evidence'], capture_output=True, text=True, env=env)
            lines = p.stdout.strip().splitlines()
            first = ([l for l in lines if l.startswith('VIOLATION')] or [l for l in lines if l.startswith(('OK', 'UNDECIDED'))] or lines or [''])[0]
            out[prop] = (p.returncode, re.sub(r'replay=\S+', 'replay=…', first)[:170])
            if p.returncode != want: bad += 1
        return '%s %s expected %s' % (sid, out, dict(exp, **{k + '+search': v for k, v in exp_rs.items()})), bad
    finally:
        shutil.rmtree(tmp, ignore_errors=True)
sids = [sid for sid in sorted(os.listdir(os.path.join(ROOT, 'seeded'))) if os.path.isdir(os.path.join(ROOT, 'seeded', sid)) and not (sel and not any(s in sid for s in sel))]
bad = 0
with ThreadPoolExecutor(max_workers=JOBS) as tp:
    for line, b in tp.map(one, sids):
        print(line, flush=True); bad += b
print('not as expected:', bad)
sys.exit(1 if bad else 0)
