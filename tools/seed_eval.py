#!/usr/bin/env python3
"""seed_eval -- confirm an independently written property-breaking change and run the checks against it.
usage: seed_eval.py --id S01 --prop C17 --src /tmp/wt/C17/deliver [--also C07,C08]
 1. fresh scratch worktree of /repo HEAD: the suite result with the patch is the baseline (239 passed; 2 failed),
    the demonstration fails with the patch and passes without it;
 2. ./check <prop> (and --also) with VERIF_REPO pointing at the patched scratch tree;
 3. copies patch.diff, demo.rs, meta.json (+ what was run and the verdicts) to /verif/seeded/<id>/.
The scratch worktree and its build output are removed at the end."""
import os, sys, json, shutil, subprocess, argparse, tempfile, re, time
ROOT = os.path.dirname(os.path.dirname(os.path.abspath(__file__)))
ap = argparse.ArgumentParser()
ap.add_argument('--id', required=True); ap.add_argument('--prop', required=True); ap.add_argument('--src', required=True)
ap.add_argument('--also', default=''); ap.add_argument('--holds', default='')
a = ap.parse_args()
wt = tempfile.mkdtemp(prefix='seedcheck_')
os.rmdir(wt)
def sh(cmd, cwd=None, env=None, timeout=1800):
    p = subprocess.run(cmd, shell=True, cwd=cwd, env=env, capture_output=True, text=True, timeout=timeout)
    return p.returncode, p.stdout + p.stderr
log = {}
try:
    rc, out = sh('git -C /repo worktree add --detach %s HEAD' % wt); assert rc == 0, out
    env = dict(os.environ, CARGO_TARGET_DIR=os.path.join(wt, 'target'))
    demo = 'demo_%s' % a.id
    os.makedirs(os.path.join(wt, 'tests'), exist_ok=True)
    shutil.copy(os.path.join(a.src, 'demo.rs'), os.path.join(wt, 'tests', demo + '.rs'))
    # without the patch: demo passes
    rc, out = sh('cargo test --offline --test %s 2>&1 | grep "test result"' % demo, cwd=wt, env=env)
    log['demo_without_patch'] = out.strip()
    rc, out = sh('git apply %s' % os.path.join(a.src, 'patch.diff'), cwd=wt); assert rc == 0, 'patch does not apply: ' + out
    rc, out = sh('cargo test --offline --test %s 2>&1 | grep "test result"' % demo, cwd=wt, env=env)
    log['demo_with_patch'] = out.strip()
    os.remove(os.path.join(wt, 'tests', demo + '.rs'))
    rc, out = sh('cargo test --offline 2>&1 | grep "test result" | head -1', cwd=wt, env=env)
    log['suite_with_patch'] = out.strip()
    ok_confirm = ('0 failed' in log['demo_without_patch'] and ' 0 failed' not in log['demo_with_patch'] and 'failed' in log['demo_with_patch']
                  and '239 passed; 2 failed' in log['suite_with_patch'])
    log['confirmed'] = ok_confirm
    verdicts = {}
    for prop in [a.prop] + [x for x in (a.also + ',' + a.holds).split(',') if x]:
        t0 = time.time()
        p = subprocess.run([os.path.join(ROOT, 'check'), prop, '--no-evidence'], capture_output=True, text=True, env=dict(os.environ, VERIF_REPO=wt, VERIF_NO_REPLAY_SEARCH='1'))
        lines = [l for l in p.stdout.splitlines() if l.startswith(('VIOLATION', 'OK', 'UNDECIDED', 'KNOWN'))]
        verdicts[prop] = {'exit': p.returncode, 'lines': [re.sub(r'replay=\S+', 'replay=…', l)[:300] for l in lines[:4]], 'wall_s': round(time.time() - t0, 1)}
    log['checks'] = verdicts
    dst = os.path.join(ROOT, 'seeded', a.id)
    os.makedirs(dst, exist_ok=True)
    shutil.copy(os.path.join(a.src, 'patch.diff'), os.path.join(dst, 'patch.diff'))
    shutil.copy(os.path.join(a.src, 'demo.rs'), os.path.join(dst, 'demo.rs'))
    meta = {}
    try: meta = json.load(open(os.path.join(a.src, 'meta.json')))
    except Exception as e: meta = {'note': 'agent meta.json unreadable: %s' % e}
    meta = {'id': a.id, 'breaks_property': a.prop, 'author': 'independent sub-agent (saw only the property text and a scratch worktree)',
            'agent_meta': meta, 'confirmed_by_seed_eval': log,
            'what_was_run': ['git worktree add (scratch) ; cp demo.rs tests/ ; cargo test --offline --test demo (without patch: must pass)',
                             'git apply patch.diff ; cargo test --offline --test demo (with patch: must fail)',
                             'cargo test --offline (with patch: must be 239 passed; 2 failed)',
                             'VERIF_REPO=<patched scratch tree> ./check <prop> --no-evidence']}
    json.dump(meta, open(os.path.join(dst, 'meta.json'), 'w'), indent=1)
    print(json.dumps(log, indent=1))
finally:
    sh('git -C /repo worktree remove --force %s' % wt)
    shutil.rmtree(wt, ignore_errors=True)
