#!/usr/bin/env python3
"""r14_selftest -- differential test of rule R14 (beta-reduction of new private helpers) on synthetic code.
selftest/r14/cases.rs is compiled and run as written and with every helper call reduced by the extractor's own
inline_helpers(); both programs must print exactly the same lines.  usage: r14_selftest.py  (exit 0 = identical)"""
import os, sys, subprocess, tempfile, shutil
sys.path.insert(0, os.path.dirname(os.path.abspath(__file__)))
from extract import Extractor
import rsx
from rsx import tokenize, split_items
ROOT = os.path.dirname(os.path.dirname(os.path.abspath(__file__)))
src = open(os.path.join(ROOT, 'selftest', 'r14', 'cases.rs')).read()
ex = Extractor(os.environ.get('VERIF_REPO', '/repo'), os.path.join(ROOT, 'spec'), 'core')
ex.baseline = {'cases::main', 'cases::main2', 'cases::first_seven', 'cases::read_u16_then_u8', 'cases::swapped', 'cases::T::sum2', 'cases::two_pads'}   # the callers; every other function is "new"
toks = tokenize(src); items = split_items(toks, 0, len(toks))
plan = ex.plan_inlining(toks, items, 'cases')
print('helpers reduced at all their call sites:', sorted(plan))
want = {'take', 'sub_checked', 'at', 'scale', 'checked', 'pad', 'find_first'}
if set(plan) != want:
    print('UNEXPECTED plan, wanted', sorted(want)); sys.exit(1)
out = []
def emit(it, cont):
    t = tokenize(rsx.text_of(toks, it.start, it.end))
    if it.name not in plan: t = ex.inline_helpers(t, plan, self_name=it.name)
    return ''.join(x.text for x in t)
pos = 0; text = ''
for it in items:
    if it.kind == 'fn':
        text += rsx.text_of(toks, pos, it.start) + emit(it, ''); pos = it.end
    elif it.kind == 'impl':
        text += rsx.text_of(toks, pos, it.body_open + 1); pos = it.body_open + 1
        for ch in it.children:
            if ch.kind == 'fn':
                text += rsx.text_of(toks, pos, ch.start) + emit(ch, it.name); pos = ch.end
text += rsx.text_of(toks, pos, len(toks))
text = text.replace('crate::vp::r14_res', 'vp::r14_res')
tmp = tempfile.mkdtemp(prefix='verif_r14_')
try:
    res = []
    for name, body in (('orig', src), ('reduced', text)):
        p = os.path.join(tmp, name + '.rs'); open(p, 'w').write(body)
        c = subprocess.run(['rustc', '--edition', '2021', '-A', 'warnings', '-o', os.path.join(tmp, name), p], capture_output=True, text=True)
        if c.returncode != 0:
            print('%s does not compile:\n%s' % (name, c.stderr[-2000:])); sys.exit(1)
        r = subprocess.run([os.path.join(tmp, name)], capture_output=True, text=True)
        res.append(r.stdout)
    n_sites = text.count('__r14_')
    if res[0] != res[1] or not res[0].strip():
        print('OUTPUT DIFFERS\n--- as written\n%s\n--- reduced\n%s' % (res[0], res[1])); sys.exit(1)
    print('identical output (%d lines); %d reduced call sites' % (len(res[0].splitlines()), text.count('r14_res(') + text.count('{ let __r14_')))
finally:
    shutil.rmtree(tmp, ignore_errors=True)
