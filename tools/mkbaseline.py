#!/usr/bin/env python3
"""mkbaseline -- record the function paths of the pinned tree per unit (spec/baseline_fns.json).
A function that is NOT in this list is a function the contracts were never written against (added by a later change):
modular verification knows nothing about it, so a proof failure in it, or in a function that calls it, is UNDECIDED
(see DESIGN.md section 3), never a violation by itself.  Regenerate only when contracts are (re)written for a new tree."""
import os, sys, json
sys.path.insert(0, os.path.dirname(os.path.abspath(__file__)))
from extract import Extractor
ROOT = os.path.dirname(os.path.dirname(os.path.abspath(__file__)))
out = {}
for unit in ('core', 'std'):
    gen = Extractor(os.environ.get('VERIF_REPO', '/repo'), os.path.join(ROOT, 'spec'), unit).build()
    out[unit] = sorted(set('%s::%s' % (f.module, f.path) for f in gen.fns))
json.dump(out, open(os.path.join(ROOT, 'spec', 'baseline_fns.json'), 'w'), indent=0)
print({k: len(v) for k, v in out.items()})
