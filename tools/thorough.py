"""thorough tier extras: second solver seed (brittleness), 32-bit usize pass, big-endian target pass, R1 cross-check"""
import json
def run(prop, pcfg, units, runs, seed, run_unit, Undecided):
    report = {}
    out = {'fails': [], 'undecided': [], 'obligations': [], 'report': report}
    # (1) second seed: a proof that flips with the seed is brittle -> undecided, never a violation
    s2 = (seed or 0) + 1
    for u in runs:
        r2 = run_unit(prop, u.unit, pcfg, None, seed=s2, want_canary=False)
        a = sorted(f['obligation'] for f in u.fails if prop in f['props'])
        b = sorted(f['obligation'] for f in r2.fails if prop in f['props'])
        report['seed_%d_unit_%s' % (s2, u.unit)] = {'failed': b, 'verified': r2.res.get('verified'), 'smt_ms': r2.res.get('smt_ms')}
        if a != b:
            out['undecided'].append({'message': 'proof result differs between solver seeds %s and %s (%s vs %s)' % (seed, s2, a, b), 'fn': None, 'module': None, 'kind': 'brittle'})
    # (2) 32-bit pass for the properties whose statement covers 32-bit targets
    if pcfg.get('bits32'):
        for unit in units:
            r32 = run_unit(prop, unit, pcfg, None, usize=4, want_canary=False)
            rel = [f for f in r32.fails if prop in f['props']]
            report['usize32_unit_%s' % unit] = {'failed': [f['obligation'] for f in rel], 'verified': r32.res.get('verified')}
            for f in rel:
                f['obligation'] = 'bits32:' + f['obligation']; f['unit'] = unit + '/usize32'; f['cmd'] = r32.res['cmd']
                out['fails'].append(f)
            out['obligations'] += ['bits32:' + o for o in r32.obs if o.startswith('safety:')]
    # (3) big-endian build target for the properties that speak about the native byte order (cfg(target_endian = "big"))
    if pcfg.get('big_endian_target'):
        for unit in units:
            rbe = run_unit(prop, unit, pcfg, None, want_canary=False, target_endian='big')
            rel = [f for f in rbe.fails if prop in f['props']]
            report['big_endian_target_unit_%s' % unit] = {'failed': [f['obligation'] for f in rel], 'verified': rbe.res.get('verified')}
            for f in rel:
                f['obligation'] = 'be-target:' + f['obligation']; f['unit'] = unit + '/be-target'; f['cmd'] = rbe.res['cmd']
                out['fails'].append(f)
            out['obligations'] += ['be-target:' + o for o in rbe.obs if not o.startswith(('safety:', 'termination:'))]
    # (4) rule R1 against rustc's own macro expansion of the current tree
    if pcfg.get('r1_crosscheck'):
        import r1_crosscheck
        try: rc_ = r1_crosscheck.run()
        except Exception as e: rc_ = {'status': 'unavailable', 'detail': str(e)[:300]}
        report['r1_macro_expansion_vs_rustc'] = rc_
        if rc_.get('status') == 'mismatch':
            out['undecided'].append({'message': "the extractor's expansion of safe_from! differs from rustc's (-Zunpretty=expanded): %s" % json.dumps(rc_.get('functions'))[:600],
                                     'fn': None, 'module': 'endian', 'kind': 'extraction'})
    return out
