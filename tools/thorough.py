"""thorough tier extras: second solver seed (brittleness), 32-bit usize pass, big-endian target pass, R1 cross-check"""
import json, os
def run(prop, pcfg, units, runs, seed, run_unit, Undecided):
    report = {}
    out = {'fails': [], 'undecided': [], 'obligations': [], 'report': report}
    # (1) second seed: a proof that flips with the seed is brittle -> undecided, never a violation
    s2 = (seed or 0) + 1
    for u in runs:
        r2 = run_unit(prop, u.unit, pcfg, None, seed=s2, want_canary=False)
        a = sorted(f['obligation'] for f in u.fails if prop in f['props'])
        b = sorted(f['obligation'] for f in r2.fails if prop in f['props'])
        report['seed_%d_unit_%s' % (s2, u.unit)] = {'failed': b, 'verified': r2.res.get('verified'), 'smt_ms': r2.res.get('smt_ms')}
        if a != b:
            out['undecided'].append({'message': 'proof result differs between solver seeds %s and %s (%s vs %s)' % (seed, s2, a, b), 'fn': None, 'module': None, 'kind': 'brittle'})
    # (2) 32-bit pass for the properties whose statement covers 32-bit targets
    if pcfg.get('bits32'):
        for unit in units:
            r32 = run_unit(prop, unit, pcfg, None, usize=4, want_canary=False)
            rel = [f for f in r32.fails if prop in f['props']]
            report['usize32_unit_%s' % unit] = {'failed': [f['obligation'] for f in rel], 'verified': r32.res.get('verified')}
            for f in rel:
                f['obligation'] = 'bits32:' + f['obligation']; f['unit'] = unit + '/usize32'; f['cmd'] = r32.res['cmd']
                out['fails'].append(f)
            out['obligations'] += ['bits32:' + o for o in r32.obs if o.startswith('safety:')]
    # (3) big-endian build target for the properties that speak about the native byte order (cfg(target_endian = "big"))
    if pcfg.get('big_endian_target'):
        for unit in units:
            rbe = run_unit(prop, unit, pcfg, None, want_canary=False, target_endian='big')
            rel = [f for f in rbe.fails if prop in f['props']]
            report['big_endian_target_unit_%s' % unit] = {'failed': [f['obligation'] for f in rel], 'verified': rbe.res.get('verified')}
            for f in rel:
                f['obligation'] = 'be-target:' + f['obligation']; f['unit'] = unit + '/be-target'; f['cmd'] = rbe.res['cmd']
                out['fails'].append(f)
            out['obligations'] += ['be-target:' + o for o in rbe.obs if not o.startswith(('safety:', 'termination:'))]
    # (4) rule R1 against rustc's own macro expansion of the current tree
    if pcfg.get('r1_crosscheck'):
        import r1_crosscheck
        try: rc_ = r1_crosscheck.run()
        except Exception as e: rc_ = {'status': 'unavailable', 'detail': str(e)[:300]}
        report['r1_macro_expansion_vs_rustc'] = rc_
        if rc_.get('status') == 'mismatch':
            out['undecided'].append({'message': "the extractor's expansion of safe_from! differs from rustc's (-Zunpretty=expanded): %s" % json.dumps(rc_.get('functions'))[:600],
                                     'fn': None, 'module': 'endian', 'kind': 'extraction'})
    # (5) bounded cross-validation: the executable oracles paired with this property's obligations (the same harnesses the replay
    #     search uses) are run against the CURRENT tree.  A counterexample that replays on the real crate is a violation with a
    #     concrete input; 'no counterexample within the bound' is recorded as a BOUNDED result and never counted as proved.
    hs = list(pcfg.get('replay_harnesses_thorough', []))
    if hs and not os.environ.get('VERIF_NO_REPLAY_SEARCH'):
        import replay_search
        from concurrent.futures import ThreadPoolExecutor
        allh = dict(replay_search.HARNESS); allh.update(replay_search.struct_harnesses())
        if 'c02_*' in hs: hs = [h for h in hs if h != 'c02_*'] + sorted(h for h in allh if h.startswith('c02_'))
        def one(h):
            # native families: three times the cases of the quick tier under a second seed (the quick tier's run, first seed, is part of this tier too)
            try: return h, replay_search.search(h, timeout=int(os.environ.get('VERIF_REPLAY_TIMEOUT_THOROUGH', '900')), prop=prop, scale=3, seed=20261004)
            except Exception as e: return h, {'status': 'search-error: %s' % e}
        with ThreadPoolExecutor(max_workers=4) as tp:
            res = dict(tp.map(one, hs))
        report['bounded_oracle_runs'] = {h: {k: v for k, v in r.items() if k in ('status', 'bound', 'wall_s', 'inputs', 'replay_output')} for h, r in res.items()}
        for h, r in sorted(res.items()):
            out.setdefault('bounded', []).append({'harness': 'replay:' + h, 'bound': r.get('bound', '?'), 'status': r.get('status'), 'counted_as_proved': False})
            if r.get('status') == 'replayed-fails':
                out['fails'].append({'kind': 'bounded-oracle', 'message': 'the executable oracle %s fails on the real crate for a concrete input: %s' % (h, (r.get('replay_output') or '')[:300]),
                                     'fn': h, 'module': 'kani', 'src': 'kani/replay_src/checks.rs', 'line': 0, 'rendered': r.get('replay_output', ''), 'canary': None, 'labels': [],
                                     'obligation': 'bounded:replay:' + h, 'props': [prop], 'clause': None, 'cmd': r.get('kani_cmd', ''), '_search': dict(r, harness=h)})
    return out
