#!/usr/bin/env python3
"""replay_search -- after Verus has rejected an obligation, look for a concrete failing input with Kani and replay it
against the real crate.

 search(harness)  builds the crate kani/replay_src (+ generated layout oracle) against the CURRENT repository tree in a
                  scratch dir, runs `cargo kani --harness search_<harness> -Z concrete-playback --concrete-playback=print`
                  (time-boxed), decodes the printed byte vectors into the harness' arguments, writes a stand-alone replay
                  program, builds and runs it against the repository: it must FAIL there.  Returns dict or None.
All Kani harnesses here bound the buffer length (stated per harness): the search is BOUNDED; it only produces
witnesses, it never decides a property."""
import os, sys, re, json, shutil, subprocess, tempfile, time, tomllib
def run_group(cmd, cwd, env, timeout):
    """subprocess.run with capture, in its own process group; on time-out the WHOLE group is killed (cargo-kani leaves a cbmc
    child running otherwise).  Returns (returncode or None on time-out, stdout+stderr)."""
    import signal
    p = subprocess.Popen(cmd, cwd=cwd, env=env, stdout=subprocess.PIPE, stderr=subprocess.PIPE, text=True, start_new_session=True)
    try:
        out, err = p.communicate(timeout=timeout)
        return p.returncode, (out or '') + (err or '')
    except subprocess.TimeoutExpired:
        try: os.killpg(p.pid, signal.SIGKILL)
        except Exception: pass
        try: out, err = p.communicate(timeout=10)
        except Exception: out, err = '', ''
        return None, (out or '') + (err or '') + '\nTIMEOUT'

ROOT = os.path.dirname(os.path.dirname(os.path.abspath(__file__)))
REPO = os.environ.get('VERIF_REPO', '/repo')

# harness name -> ordered symbolic arguments: (name, kind) ; kind: 'u8xN' array, 'usize', 'u8', 'bool'
HARNESS = {
    'c15': {'args': [('buf', 'u8x8'), ('len', 'usize'), ('off', 'usize')], 'bound': 'table <= 8 bytes', 'assume': 'len <= 8',
            'call': 'check_c15(&buf[..len], off)', 'unwind': 10},
    'c15_get': {'args': [('buf', 'u8x4'), ('len', 'usize'), ('off', 'usize')], 'bound': 'table <= 4 bytes', 'assume': 'len <= 4',
                'call': 'check_c15_get(&buf[..len], off)', 'unwind': 6},
    'c09': {'args': [('buf', 'u8x12'), ('len', 'usize'), ('idx', 'usize'), ('little', 'bool')], 'bound': 'table <= 12 bytes (u32 entries)', 'assume': 'len <= 12',
            'call': 'check_c09(&buf[..len], idx, little)', 'unwind': 6},
    'c09_len': {'args': [('buf', 'u8x24'), ('len', 'usize'), ('little', 'bool')], 'bound': 'table <= 24 bytes (u32 entries and Rel/ELF32 entries)', 'assume': 'len <= 24',
                'call': 'check_c09_len(&buf[..len], little)', 'unwind': 2},
    'c14_a0': {'args': [('buf', 'u8x24'), ('len', 'usize'), ('elf64', 'bool'), ('little', 'bool')], 'bound': 'note bytes <= 24, alignment 0, first note',
               'assume': 'len <= 24', 'call': 'check_c14(&buf[..len], 0, elf64, little)', 'unwind': 8},
    'c14_a4': {'args': [('buf', 'u8x24'), ('len', 'usize'), ('elf64', 'bool'), ('little', 'bool')], 'bound': 'note bytes <= 24, alignment 4, first note',
               'assume': 'len <= 24', 'call': 'check_c14(&buf[..len], 3, elf64, little)', 'unwind': 8},
    'c14_a8': {'args': [('buf', 'u8x24'), ('len', 'usize'), ('elf64', 'bool'), ('little', 'bool')], 'bound': 'note bytes <= 24, alignment 8, first note',
               'assume': 'len <= 24', 'call': 'check_c14(&buf[..len], 4, elf64, little)', 'unwind': 8},
    'c14_a1': {'args': [('buf', 'u8x24'), ('len', 'usize'), ('elf64', 'bool'), ('little', 'bool')], 'bound': 'note bytes <= 24, alignment 1, first note',
               'assume': 'len <= 24', 'call': 'check_c14(&buf[..len], 1, elf64, little)', 'unwind': 8},
    'c14_a3': {'args': [('buf', 'u8x24'), ('len', 'usize'), ('elf64', 'bool'), ('little', 'bool')], 'bound': 'note bytes <= 24, alignment 3, first note',
               'assume': 'len <= 24', 'call': 'check_c14(&buf[..len], 6, elf64, little)', 'unwind': 8},
    'c03_range': {'args': [('off', 'u64'), ('size', 'u64'), ('memsz', 'u64'), ('nobits', 'bool')], 'bound': 'one 60-byte ELF32/LE file; all offsets, sizes, p_memsz', 'assume': 'true',
                  'call': 'check_c03_range(off, size, memsz, nobits)', 'unwind': 9},
    'c13_need': {'args': [('buf', 'u8x40'), ('count', 'u8'), ('little', 'bool')], 'bound': 'a 40-byte section, iteration from offset 0, count < 256: first record + its first auxiliary record + the step',
                 'assume': 'true', 'call': 'check_c13_iter(&buf, count, 0, little, false)', 'unwind': 8},
    'c13_def': {'args': [('buf', 'u8x40'), ('count', 'u8'), ('little', 'bool')], 'bound': 'a 40-byte section, iteration from offset 0, count < 256: first record + its first auxiliary record + the step',
                'assume': 'true', 'call': 'check_c13_iter(&buf, count, 0, little, true)', 'unwind': 8},
    'c13_req': {'args': [('versym', 'u8x4'), ('need', 'u8x32'), ('strs', 'u8x6'), ('sym_idx', 'u8'), ('little', 'bool')], 'bound': 'one VerNeed record with one auxiliary record at offset 16, 2 versym entries, the fixed string table "\\0a\\0bc\\0" with vn_file = 1 and vna_name = 3; symbolic: versym, vna_hash, vna_flags, vna_other, symbol index, byte order',
                'assume': 'strs == [0u8, 97, 0, 98, 99, 0] && need[4..8] == (if little { [1u8, 0, 0, 0] } else { [0u8, 0, 0, 1] }) && need[24..28] == (if little { [3u8, 0, 0, 0] } else { [0u8, 0, 0, 3] }) && need[0..2] == (if little { [1u8, 0] } else { [0u8, 1] }) && need[2..4] == (if little { [1u8, 0] } else { [0u8, 1] }) && need[8..12] == (if little { [16u8, 0, 0, 0] } else { [0u8, 0, 0, 16] }) && need[12..16] == [0u8, 0, 0, 0]', 'call': 'check_c13_req(&versym, &need, &strs, sym_idx, little)', 'unwind': 8},
    'c20': {'args': [('ty0', 'u8'), ('ty1', 'u8'), ('link0', 'u8'), ('link1', 'u8'), ('ent0', 'u8'), ('ent1', 'u8'), ('win0', 'bool'), ('win1', 'bool')],
            'bound': 'a 248-byte ELF64/LE file with two section headers: 8 section types x 3 links x 4 entry sizes x 2 data windows each', 'assume': 'true',
            'call': 'check_c20(ty0, ty1, link0, link1, ent0, ent1, win0, win1)', 'unwind': 10},
    'c10': {'args': [('ident', 'u8x16')], 'bound': 'none (all 16-byte idents)', 'assume': 'true', 'call': 'check_c10(&ident)', 'unwind': 6},
    'hash': {'args': [('buf', 'u8x5'), ('len', 'usize')], 'bound': 'name <= 5 bytes', 'assume': 'len <= 5', 'call': 'check_hash(&buf[..len])', 'unwind': 7},
}
# oracles searched by a bounded NATIVE enumeration (Kani cannot run HashMap-based code here and does not finish the larger
# slice-parser oracles): a stated family of pseudo-random structured inputs with a fixed seed; only ever used to FIND a failing input
STREAM_SEED = 20261003
def _n(env, default): return int(os.environ.get(env, default))
NATIVE = {
    'stream': {'panic_props': ['C07', 'C17', 'C18', 'C05'], 'enum': 'stream_oracle::enumerate', 'check': 'stream_oracle::check_stream(c)', 'n': _n('VERIF_STREAM_CASES', '150000'),
               'family': 'ELF64/LE files of <= 490 bytes from kani/replay_src/stream_oracle.rs::enumerate: 0-3 section headers, 0-1 program header, numbering escapes, bad links/names/sizes, truncation, one injected I/O fault'},
    'streamx': {'panic_props': ['C07', 'C17', 'C18'], 'enum': 'stream_oracle::enumerate_x', 'check': 'stream_oracle::check_stream(c)', 'n': 40000, 'family': 'the complete small ELF objects of the C01 family (both classes x both byte orders, every section kind, 1-3 header fields at boundary values, in-section words replaced; no compressed section), cut at a random point in a quarter of the cases, at most one injected I/O fault; stream parser against slice parser'},
    'c20n': {'panic_props': ['C20', 'C01'], 'enum': 'stream_oracle::enumerate', 'check': 'slice_oracle::check_c20_file(&c.file[..c.cut.min(c.file.len())])', 'n': _n('VERIF_STREAM_CASES', '150000'),
             'family': 'the same ELF64/LE files as the stream oracle, through the slice parser: by-name lookup against a manual scan, typed views against section_data, find_common_data against the targeted accessors'},
    'hashn': {'panic_props': ['C11', 'C12', 'C01'], 'enum': 'slice_oracle::enumerate_hash', 'check': 'slice_oracle::check_hash_tables(c)', 'n': _n('VERIF_HASH_CASES', '200000'),
              'family': '.hash and .gnu.hash sections BUILT per the gABI / GNU format by an independent builder for 0-8 symbols (duplicates, non-UTF-8 names), 1-8 buckets, 1-4 bloom words, shifts 0-31, both classes and byte orders, optionally one corrupted byte; every present name must be found, every absent name give None, every answer be sound'},
    'c05n': {'panic_props': ['C05', 'C01'], 'enum': 'stream_oracle::enumerate', 'check': 'slice_oracle::check_c05_file(&c.file[..c.cut.min(c.file.len())])', 'n': _n('VERIF_STREAM_CASES', '150000'),
             'family': 'the ELF64/LE files of the stream oracle: header tables against an independent decode of e_shoff/e_shnum/e_phoff/e_phnum with the extended-numbering rules; open fails iff an entry size is wrong or a table does not fit'},
    'c04n': {'tags': ['C04'], 'enum': 'byte_families::fam_c04', 'check': 'byte_families::run_c04(c)', 'n': 400000, 'family': 'buffers <= 12 bytes, offsets inside/at/past the end and near usize::MAX, six readers x four byte-order specifications'},
    'c15n': {'tags': ['C15'], 'enum': 'byte_families::fam_c15', 'check': 'byte_families::run_c15(c)', 'n': 400000, 'family': 'string tables <= 10 bytes over {NUL, ASCII, invalid UTF-8}: get_raw and get'},
    'c09n': {'tags': ['C09'], 'enum': 'byte_families::fam_c09', 'check': 'byte_families::run_c09(c)', 'n': 300000, 'family': 'lazy tables over <= 40 bytes (u32 entries and Rel/ELF32 entries), indexes inside/at/past len and huge'},
    'c10n': {'tags': ['C10'], 'enum': 'byte_families::fam_c10', 'check': 'byte_families::run_c10(c)', 'n': 300000, 'family': 'valid idents with 0-3 bytes replaced'},
    'c14n': {'tags': ['C14'], 'enum': 'byte_families::fam_c14', 'check': 'byte_families::run_c14(c)', 'n': 300000, 'family': '1-3 note records (GNU / other names, types 1/3/5, sizes on and off the alignment), alignments 0,1,2,3,4,8,16, truncation, corrupted size words'},
    'c03n': {'tags': ['C03'], 'enum': 'byte_families::fam_c03', 'check': 'byte_families::run_c03(c)', 'n': 50000, 'family': 'section / segment ranges around the boundaries of a 60-byte file and around u64 overflow'},
    'c13i': {'tags': ['C13'], 'enum': 'byte_families::fam_c13i', 'check': 'byte_families::run_c13i(c)', 'n': 300000, 'family': 'structured version sections iterated from several offsets and counts (three records each)'},
    'c02n': {'tags': ['C02'], 'enum': 'byte_families::fam_c02', 'check': 'run_c02(c)', 'n': 600000, 'family': 'every ABI structure decoded from buffers <= 80 bytes at offsets 0..8 and past the end, both classes and byte orders, against the layout table'},
    'c16n': {'tags': ['C16'], 'panic_props': ['C01'], 'enum': 'term_oracle::enumerate_term', 'check': 'term_oracle::check_term(c)', 'n': 140000, 'family': 'adversarial link structures of < 300 bytes: SysV chains with cycles / self-loops / out-of-range links, GNU chains without stop bit, VerNeed / VerDef records with next = 0 / overlapping / huge and counts up to u64::MAX, random notes and entry tables; clauses: returns within 3 s, at most one item per byte, at most the declared count'},
    'c19n': {'tags': ['C19'], 'panic_props': [], 'enum': 'c19_gen::enumerate_c19', 'check': 'c19_gen::check_c19(c)', 'n': 3000, 'family': 'every constant of the reference table that elf::abi exports; every to_str function over its whole domain (u8 / u16) or over all constant values, their neighbours and 3000 pseudo-random values (u32 / u64 / i64); the to_string variants against to_str / the fallback text'},
    'c01n': {'no_scale': True, 'tags': [], 'panic_props': ['C01'], 'enum': 'c01_oracle::enumerate_c01', 'check': 'c01_oracle::check_c01(c)', 'n': 200000, 'family': 'a complete small ELF object (both classes and byte orders: dynsym, versym / verneed / verdef, SysV and GNU hash, dynamic, note, rel / rela, symtab, a compressed section, three segments) with 1-3 header fields (section header, program header, ELF header) set to boundary values (0, 1, 2, 2^31, 2^32-1, 2^63, 2^64-1, 2^64-8, file length +-1, ...), sometimes truncated or with a flipped bit; every public accessor of ElfBytes called and every table / iterator / lookup walked; clause: no panic'},
    'c13n': {'panic_props': ['C13', 'C01'], 'enum': 'slice_oracle::enumerate_symver', 'check': 'slice_oracle::check_symver(c)', 'n': _n('VERIF_SYMVER_CASES', '300000'),
             'family': 'version sections from kani/replay_src/slice_oracle.rs::enumerate_symver: 1-4 versym entries, 0-3 verneed records with one auxiliary record each, 0-3 verdef records, forward/zero/out-of-range links, hidden bits, unreadable strings; get_requirement/get_definition against a reference resolution'},
}
for _k, _v in NATIVE.items(): _v['bound'] = '%d pseudo-random cases (seed %d): %s; native enumeration, not Kani' % (_v['n'], STREAM_SEED, _v['family'])
for _i, _t in enumerate(['u8', 'u16', 'u32', 'u64', 'i32', 'i64']):
    HARNESS['c04_' + _t] = {'args': [('buf', 'u8x12'), ('len', 'usize'), ('off', 'usize'), ('s', 'u8')], 'bound': 'buffer <= 12 bytes (a read touches <= 8)',
                            'assume': 'len <= 12 && s < 4', 'call': 'check_c04(&buf[..len], off, %d, s)' % _i, 'unwind': 10}
def struct_harnesses():
    L = tomllib.load(open(os.path.join(ROOT, 'spec', 'abi_layout.toml'), 'rb'))
    out = {}
    for name, e in L.items():
        if e.get('prim') or e.get('private_type'): continue
        n = max(e['size'].values()) + 8
        out['c02_' + name.lower()] = {'args': [('buf', 'u8x%d' % n), ('len', 'usize'), ('off', 'usize'), ('elf64', 'bool'), ('little', 'bool')],
                                      'bound': 'buffer <= %d bytes, offset <= 8' % n, 'assume': 'len <= %d && off <= 8' % n,
                                      'call': 'check_c02_%s(&buf[..len], off, elf64, little)' % name.lower(), 'unwind': n + 2}
    return out

def layout_oracle():
    """Rust source of check_c02_<struct>() generated from spec/abi_layout.toml"""
    L = tomllib.load(open(os.path.join(ROOT, 'spec', 'abi_layout.toml'), 'rb'))
    modmap = {'SectionHeader': 'section', 'ProgramHeader': 'segment', 'Symbol': 'symbol', 'Rel': 'relocation', 'Rela': 'relocation', 'Dyn': 'dynamic',
              'CompressionHeader': 'compression', 'NoteGnuAbiTag': 'note', 'SysVHashHeader': 'hash', 'GnuHashHeader': 'hash', 'VersionIndex': 'gnu_symver',
              'VerDef': 'gnu_symver', 'VerDefAux': 'gnu_symver', 'VerNeed': 'gnu_symver', 'VerNeedAux': 'gnu_symver'}
    out = ['// generated from spec/abi_layout.toml by tools/replay_search.py']
    for name, e in L.items():
        if e.get('prim') or e.get('private_type'): continue
        ty = 'elf::%s::%s' % (modmap[name], name)
        out.append('pub fn check_c02_%s(buf: &[u8], off: usize, elf64: bool, little: bool) -> Result<(), String> {' % name.lower())
        out.append('    let class = if elf64 { Class::ELF64 } else { Class::ELF32 };')
        out.append('    let endian = if little { AnyEndian::Little } else { AnyEndian::Big };')
        out.append('    let size: usize = if elf64 { %d } else { %d };' % (e['size']['ELF64'], e['size']['ELF32']))
        out.append('    let mut o = off;')
        out.append('    let r = <%s as ParseAt>::parse_at(endian, class, &mut o, buf);' % ty)
        out.append('    let fits = off.checked_add(size).map_or(false, |x| x <= buf.len());')
        out.append('    if <%s as ParseAt>::size_for(class) != size { fail!("size_for({:?}) != {}", class, size); }' % ty)
        for cls, flag in (('ELF32', '!elf64'), ('ELF64', 'elf64')):
            rows = e.get(cls) or e['both']
            out.append('    if %s {' % flag)
            out.append('        if !fits { if r.is_ok() { fail!("parse_at returned Ok although the %d-byte structure does not fit"); } return Ok(()); }' % e['size'][cls])
            for fname, foff, w, k in rows:
                v = '(uval(little, &buf[off + %d..off + %d]) as u%d)' % (foff, foff + w, 8 * w)
                if k == 's': v = '(sext(uval(little, &buf[off + %d..off + %d]), %d) as i%d)' % (foff, foff + w, w, 8 * w)
                out.append('        let d_%s = %s;' % (fname, v))
            acc = e.get('accepts')
            if acc:
                cond = acc
                for r_ in sorted(rows, key=lambda r: -len(r[0])): cond = cond.replace('$' + r_[0], 'd_' + r_[0])
                out.append('        if !(%s) { if r.is_ok() { fail!("parse_at accepted a record the ABI version check rejects"); } return Ok(()); }' % cond)
            out.append('        let v = match &r { Ok(v) => v, Err(_) => fail!("parse_at returned Err although the structure fits (and is acceptable)") };')
            out.append('        if o != off + size { fail!("parse_at consumed {} bytes, the ABI size is {}", o - off, size); }')
            ex = e.get('expr', {}).get(cls, {})
            priv = set(e.get('private', []))
            getter = e.get('getter', {})
            for fname, fty in e['native']:
                if fname in priv and fname not in getter: continue
                if fname in ex:
                    expr = ex[fname]
                    for r_ in sorted(rows, key=lambda r: -len(r[0])): expr = expr.replace('$' + r_[0], 'd_' + r_[0])
                    want = '(%s) as %s' % (expr, fty)
                else:
                    want = 'd_%s as %s' % (fname, fty)
                got = 'v.%s' % (getter.get(fname) or fname)
                out.append('        if %s != (%s) { fail!("field %s == {:#x}, the ABI layout gives {:#x}", %s, %s); }' % (got, want, fname, got, want))
            out.append('    }')
        out.append('    Ok(())\n}')
    return '\n'.join(out) + '\n'

def c02_dispatch():
    names = sorted(h[4:] for h in struct_harnesses())
    arms = ''.join('        %d => check_c02_%s(&c.buf, c.a as usize, c.f1, c.f2),\n' % (i, n) for i, n in enumerate(names))
    return ('#[cfg(not(kani))] pub fn run_c02(c: &byte_families::BytesCase) -> Result<(), String> {\n    match (c.sel as usize) %% %d {\n%s        _ => Ok(()),\n    }\n}\n' % (len(names), arms))

def c19_oracle():
    """C19 as an executable oracle, generated from the CURRENT abi.rs / to_str.rs and the committed reference table:
    names of the integer constants and the to_str / to_string functions are taken from the source mechanically; the values
    the names must have come from spec/abi_reference.json"""
    abi = open(os.path.join(REPO, 'src', 'abi.rs')).read()
    ts = open(os.path.join(REPO, 'src', 'to_str.rs')).read()
    consts = [m.group(1) for m in re.finditer(r'^pub const ([A-Za-z0-9_]+): (u8|u16|u32|u64|i64|i32|usize)\s*=', abi, re.M)]
    ref = json.load(open(os.path.join(ROOT, 'spec', 'abi_reference.json')))['constants']
    refl = sorted((n, int(v['value'])) for n, v in ref.items() if n in set(consts))
    strf = [(m.group(1), m.group(2)) for m in re.finditer(r'^pub fn ((?!\w*human)(?!note_abi_tag_os)\w+_to_str)\(\w+: (\w+)\) -> Option<&\'static str>', ts, re.M)]
    stringf = {m.group(1): m.group(2) for m in re.finditer(r'^pub fn (\w+)_to_string\(\w+: (\w+)\) -> String', ts, re.M)}
    dom = {'u8': (0, 255), 'u16': (0, 65535), 'u32': (0, 2**32 - 1), 'u64': (0, 2**64 - 1), 'i64': (-2**63, 2**63 - 1), 'i32': (-2**31, 2**31 - 1)}
    o = ['#[cfg(not(kani))] pub mod c19_gen {', '    #![allow(unreachable_patterns)]',
         '    #[derive(Debug, Clone)] pub struct C19Case { pub f: usize, pub v: i128 }',
         '    pub fn abi_value(n: &str) -> Option<i128> { match n {']
    o += ['        "%s" => Some(elf::abi::%s as i128),' % (c, c) for c in consts]
    o += ['        _ => None } }', '    pub const REF: &[(&str, i128)] = &[' + ', '.join('("%s", %d)' % (n, v) for n, v in refl) + '];']
    o.append('    pub const ALL: &[&str] = &[' + ', '.join('"%s"' % c for c in consts) + '];')
    o.append('    pub const FNS: &[(&str, i128, i128, bool)] = &[' + ', '.join('("%s", %d, %d, %s)' % (f, dom[t][0], dom[t][1], 'true' if t in ('u8', 'u16') else 'false') for f, t in strf) + '];')
    o.append('    pub fn call_str(f: usize, v: i128) -> Option<&\'static str> { match f {')
    o += ['        %d => elf::to_str::%s(v as %s),' % (i, f, t) for i, (f, t) in enumerate(strf)]
    o += ['        _ => None } }', '    pub fn call_string(f: usize, v: i128) -> Option<String> { match f {']
    o += ['        %d => Some(elf::to_str::%s_to_string(v as %s)),' % (i, f[:-len('_to_str')], t) for i, (f, t) in enumerate(strf) if stringf.get(f[:-len('_to_str')]) == t]
    o += ['        _ => None } }', r"""
    pub fn check_c19(c: &C19Case) -> Result<(), String> {
        if c.f == usize::MAX {
            let (n, want) = REF[c.v as usize];
            return match abi_value(n) { Some(x) if x != want => Err(format!("C19: abi::{} == {:#x} but the ABI reference tables (glibc <elf.h> / LLVM BinaryFormat) give {:#x}", n, x, want)), _ => Ok(()) };
        }
        let name = FNS[c.f].0;
        let got = call_str(c.f, c.v);
        if let Some(n) = got {
            match abi_value(n) {
                None => return Err(format!("C19: {}({:#x}) == Some({:?}) which is not the identifier of an exported integer constant of elf::abi", name, c.v, n)),
                Some(x) if x != c.v => return Err(format!("C19: {}({:#x}) == Some({:?}) but abi::{} == {:#x}", name, c.v, n, n, x)),
                _ => {}
            }
        }
        if let Some(s) = call_string(c.f, c.v) {
            match got {
                Some(n) => if s != n { return Err(format!("C19: {}ing({:#x}) == {:?} but {}({:#x}) == Some({:?})", name, c.v, s, name, c.v, n)); },
                None => if !(s.contains(&format!("{:x}", c.v)) || s.contains(&format!("{}", c.v))) { return Err(format!("C19: {}ing({:#x}) == {:?}: the fallback text does not contain the number", name, c.v, s)); },
            }
        }
        Ok(())
    }
    /// every reference constant; every to_str function over its whole domain (u8 / u16) or over every constant value of
    /// elf::abi and of the reference tables, its neighbours, and pseudo-random values (wider types)
    pub fn enumerate_c19(n: usize, seed: u64) -> Vec<C19Case> {
        let mut out: Vec<C19Case> = (0..REF.len()).map(|i| C19Case { f: usize::MAX, v: i as i128 }).collect();
        let mut vals: Vec<i128> = REF.iter().map(|r| r.1).collect();
        for nm in ALL.iter() { if let Some(x) = abi_value(nm) { vals.push(x); } }
        vals.sort(); vals.dedup();
        let mut s = seed;
        for (f, (_, lo, hi, small)) in FNS.iter().enumerate() {
            if *small { for v in *lo..=*hi { out.push(C19Case { f, v }); } continue; }
            for v in vals.iter() { for d in [-1i128, 0, 1] { let x = v + d; if x >= *lo && x <= *hi { out.push(C19Case { f, v: x }); } } }
            for _ in 0..n { s = s.wrapping_mul(6364136223846793005).wrapping_add(1442695040888963407); let x = *lo + ((s >> 11) as i128 % (*hi - *lo + 1)); out.push(C19Case { f, v: x }); }
        }
        out
    }
}
"""]
    return '\n'.join(o)

def gen_harness_rs(hs):
    out = ['#[cfg(kani)]\nmod search {\n    use super::*;']
    for name, h in hs.items():
        out.append('    #[kani::proof]\n    #[kani::unwind(%d)]\n    fn search_%s() {' % (h['unwind'], name))
        for a, k in h['args']:
            if k.startswith('u8x'): out.append('        let %s: [u8; %s] = kani::any();' % (a, k[3:]))
            else: out.append('        let %s: %s = kani::any();' % (a, k))
        out.append('        kani::assume(%s);' % h['assume'])
        out.append('        assert!(%s.is_ok());\n    }' % h['call'])
    out.append('}')
    return '\n'.join(out) + '\n'

LIB_HEAD = '''#![allow(unused_macros, unreachable_code, unused_variables, dead_code, unused_parens)]
macro_rules! fail { ($($a:tt)*) => { { #[cfg(kani)] { return Err(String::new()); } #[cfg(not(kani))] { return Err(format!($($a)*)); } } } }
/// run one oracle call; a panic is told apart by WHERE it was raised: inside the crate under test (its sources are the
/// path dependency .../elf/src/) it is a panic of the code under test ("PANIC"), anywhere else it is the oracle tripping
/// over an unexpected answer ("ORACLE-PANIC": a discrepancy of the family's own property, never a panic-freedom failure)
#[cfg(not(kani))] pub static PANIC_LOC: std::sync::Mutex<String> = std::sync::Mutex::new(String::new());
#[cfg(not(kani))] pub fn guarded<F: FnOnce() -> Result<(), String>>(f: F) -> Result<(), String> {
    std::panic::set_hook(Box::new(|info| { let l = info.location().map(|l| format!("{}:{}", l.file(), l.line())).unwrap_or_default(); if let Ok(mut g) = PANIC_LOC.lock() { *g = format!("{} ({})", l, info.to_string().lines().last().unwrap_or("")); } }));
    match std::panic::catch_unwind(std::panic::AssertUnwindSafe(f)) {
        Ok(r) => r,
        Err(_) => Err(panic_msg()),
    }
}
/// process-level watchdog of the native searches: a case that does not return within `limit_ms` is a failing input of its own
/// (the call hangs); `on_hang(case number)` reports it and ends the process
#[cfg(not(kani))] pub static CASE_NO: std::sync::atomic::AtomicUsize = std::sync::atomic::AtomicUsize::new(usize::MAX);
#[cfg(not(kani))] pub static CASE_T0: std::sync::atomic::AtomicU64 = std::sync::atomic::AtomicU64::new(0);
#[cfg(not(kani))] pub fn now_ms() -> u64 { static START: std::sync::OnceLock<std::time::Instant> = std::sync::OnceLock::new(); START.get_or_init(std::time::Instant::now).elapsed().as_millis() as u64 }
#[cfg(not(kani))] pub fn begin_case(i: usize) { use std::sync::atomic::Ordering::SeqCst; CASE_T0.store(now_ms(), SeqCst); CASE_NO.store(i, SeqCst); }
#[cfg(not(kani))] pub fn start_monitor(limit_ms: u64, on_hang: fn(usize)) {
    let _ = now_ms();
    std::thread::spawn(move || loop {
        std::thread::sleep(std::time::Duration::from_millis(100));
        use std::sync::atomic::Ordering::SeqCst;
        let (i, t0) = (CASE_NO.load(SeqCst), CASE_T0.load(SeqCst));
        if i != usize::MAX && now_ms().saturating_sub(t0) > limit_ms && CASE_NO.load(SeqCst) == i { on_hang(i); }
    });
}
#[cfg(not(kani))] pub fn panic_msg() -> String {
    let l = PANIC_LOC.lock().map(|g| g.clone()).unwrap_or_default();
    if l.contains("elf/src/") { format!("PANIC: the code under test panicked at {}", l) } else { format!("ORACLE-PANIC: the oracle could not digest the crate's answer (panic at {})", l) }
}
'''

def setup(tmp):
    os.makedirs(os.path.join(tmp, 'src'))
    shutil.copytree(REPO, os.path.join(tmp, 'elf'), ignore=shutil.ignore_patterns('target', '.git', 'fuzz', 'sample-objects'))
    hs = dict(HARNESS); hs.update(struct_harnesses())
    checks = open(os.path.join(ROOT, 'kani', 'replay_src', 'checks.rs')).read()
    checks = '\n'.join(l for l in checks.splitlines() if not l.startswith('//!')) + '\n'
    checks = checks.replace('include!("layout_oracle.rs");', layout_oracle())
    # route the hand-written Err(format!(..)) through the cheap path under Kani as well
    open(os.path.join(tmp, 'src', 'lib.rs'), 'w').write(LIB_HEAD + checks + gen_harness_rs(hs) + '\n#[cfg(not(kani))] pub mod stream_oracle;\n#[cfg(not(kani))] pub mod slice_oracle;\n#[cfg(not(kani))] pub mod byte_families;\n#[cfg(not(kani))] pub mod term_oracle;\n#[cfg(not(kani))] pub mod c01_oracle;\n' + c02_dispatch() + c19_oracle())
    for f_ in ('stream_oracle.rs', 'slice_oracle.rs', 'byte_families.rs', 'term_oracle.rs', 'c01_oracle.rs'): shutil.copy(os.path.join(ROOT, 'kani', 'replay_src', f_), os.path.join(tmp, 'src', f_))
    open(os.path.join(tmp, 'Cargo.toml'), 'w').write('[package]\nname = "elf-verif-replay"\nversion = "0.1.0"\nedition = "2021"\n\n[dependencies]\nelf = { path = "%s" }\n\n[lints.rust]\nunexpected_cfgs = { level = "allow", check-cfg = [\'cfg(kani)\'] }\n\n[workspace]\n' % os.path.join(tmp, 'elf'))
    return hs

def decode(vals, args):
    """concrete_vals (list of byte lists, in kani::any() order) -> dict name -> python value"""
    i = 0; out = {}
    for a, k in args:
        if k.startswith('u8x'):
            n = int(k[3:]); out[a] = [v[0] for v in vals[i:i + n]]; i += n
        elif k == 'usize': out[a] = int.from_bytes(bytes(vals[i]), 'little'); i += 1
        elif k in ('u8', 'bool'): out[a] = vals[i][0]; i += 1
        elif k == 'u64': out[a] = int.from_bytes(bytes(vals[i]), 'little'); i += 1
    return out

def replay_main(h, vals):
    lines = ['use elf_verif_replay::*;', 'fn main() {']
    for a, k in h['args']:
        v = vals[a]
        if k.startswith('u8x'): lines.append('    let %s: [u8; %s] = %s;' % (a, k[3:], '[' + ', '.join(str(x) for x in v) + ']'))
        elif k == 'usize': lines.append('    let %s: usize = %d;' % (a, v))
        elif k == 'u8': lines.append('    let %s: u8 = %d;' % (a, v))
        elif k == 'u64': lines.append('    let %s: u64 = %d;' % (a, v))
        elif k == 'bool': lines.append('    let %s: bool = %s;' % (a, 'true' if v else 'false'))
    lines.append('    match %s {' % h['call'])
    lines.append('        Ok(()) => println!("replay: the real crate behaves as specified on this input"),')
    lines.append('        Err(e) => { println!("REPLAY FAILS on the real crate: {}", e); std::process::exit(1); }')
    lines.append('    }\n}')
    return '\n'.join(lines) + '\n'

def native_batch(harnesses, timeout=420, prop=None):
    """run several native oracles against the current tree with ONE build of the oracle crate; {harness: result}"""
    tmp = tempfile.mkdtemp(prefix='verif_replay_')
    try:
        setup(tmp)
        return {h: search_native(h, timeout, tmp, prop) for h in harnesses}
    finally:
        shutil.rmtree(tmp, ignore_errors=True)

def search_native(harness, timeout=420, tmp_shared=None, prop=None, scale=1, seed=None):
    tmp = tmp_shared or tempfile.mkdtemp(prefix='verif_replay_')
    try:
        if not tmp_shared: setup(tmp)
        nv = dict(NATIVE[harness])
        # the thorough tier enumerates a larger family under a second seed (same generator, same clauses)
        SEED = STREAM_SEED if seed is None else seed
        if nv.get('no_scale'): scale = 1
        nv['n'] = nv['n'] * scale
        nv['bound'] = '%d pseudo-random cases (seed %d): %s; native enumeration, not Kani' % (nv['n'], SEED, nv['family'])
        os.makedirs(os.path.join(tmp, 'src', 'bin'), exist_ok=True)
        open(os.path.join(tmp, 'src', 'bin', 'native_search.rs'), 'w').write('''use elf_verif_replay::*;
const TAGS: &[&str] = &[%s];
const PANIC_PROPS: &[&str] = &[%s];
fn main() {
    let p = std::env::var("VERIF_ORACLE_PROP").unwrap_or_default();
    let cases = %s(%d, %d);
    start_monitor(5000, |i| { println!("HUNG {}", i); std::process::exit(4); });
    for (i, c) in cases.iter().enumerate() {
        begin_case(i);
        let msg = match guarded(|| %s) { Ok(()) => continue, Err(e) => e };
        // a family serves the properties it is tagged with (or, untagged, tags each message itself): only failures of the
        // property being checked count; a panic INSIDE the crate under test counts for every property
        if !p.is_empty() {
            // a panic raised inside the crate counts for C01 (slice-parser families) and for the properties whose calls the
            // family makes (PANIC_PROPS) -- not for a property that merely shares the family
            let mine = if msg.starts_with("PANIC") { PANIC_PROPS.contains(&p.as_str()) }
                       else if TAGS.is_empty() { msg.starts_with(&format!("{}:", p)) } else { TAGS.contains(&p.as_str()) };
            if !mine {
                // a hang that belongs to another property: the abandoned worker keeps spinning and every further hang costs the
                // watchdog time -- end this search (reported as a time-out: nothing found, nothing claimed)
                if msg.contains("did not return within") { println!("HANG {}", i); std::process::exit(3); }
                continue;
            }
        }
        println!("FOUND {}", i);
        println!("CASE {:?}", c);
        println!("MSG {}", msg);
        std::process::exit(1);
    }
    println!("NONE");
}
''' % (', '.join('"%s"' % t for t in nv.get('tags', [])), ', '.join('"%s"' % t for t in nv.get('panic_props', [t_ for t_ in nv.get('tags', []) if t_ != 'C16'] + ['C01'])), nv['enum'], nv['n'], SEED, nv['check']))
        # optimised, but WITH overflow checks and debug assertions: an arithmetic overflow must panic as it does in a debug build (C01)
        env = dict(os.environ, CARGO_NET_OFFLINE='true', CARGO_TARGET_DIR=os.path.join(tmp, 'target'), RUSTFLAGS='-Awarnings -C overflow-checks=on -C debug-assertions=on', VERIF_ORACLE_PROP=prop or '')
        t0 = time.time()
        rc_, out = run_group(['cargo', 'run', '--offline', '-q', '--release', '--bin', 'native_search'], tmp, env, timeout)
        wall = round(time.time() - t0, 1)
        bound = nv['bound']
        if rc_ is None or re.search(r'^HANG \d+$', out, re.M): return {'status': 'timeout', 'bound': bound, 'wall_s': wall}
        m = re.search(r'^FOUND (\d+)$', out, re.M)
        mh = re.search(r'^HUNG (\d+)$', out, re.M)
        if not m and mh:
            # a case on which the code under test does not return: a failing input for the properties whose calls the family makes
            owners = set(nv.get('tags', [])) | set(nv.get('panic_props', [t_ for t_ in nv.get('tags', []) if t_ != 'C16'] + ['C01']))
            if prop and prop not in owners: return {'status': 'timeout', 'bound': bound, 'wall_s': wall, 'note': 'case %s hangs (not attributed to %s)' % (mh.group(1), prop)}
            m = mh
        if not m:
            return {'status': 'no-counterexample-within-bound' if 'NONE' in out else 'search-failed', 'bound': bound, 'wall_s': wall, 'tail': out[-600:] if 'NONE' not in out else ''}
        idx = int(m.group(1))
        mc = re.search(r'^CASE (.*)$', out, re.M)
        case = {'family': nv['enum'], 'cases': nv['n'], 'seed': SEED, 'index': idx, 'case': (mc.group(1)[:6000] if mc else '')}
        main = ('use elf_verif_replay::*;\nfn main() {\n    // case #%d of the family %s(%d, %d) -- regenerated deterministically; its contents are in the replay file\n'
                '    let cases = %s(%d, %d);\n    let c = &cases[%d];\n    println!("CASE {:?}", c);\n'
                '    start_monitor(5000, |_| { println!("REPLAY FAILS on the real crate: HANG: the call did not return within 5000 ms"); std::process::exit(1); });\n    begin_case(0);\n'
                '    match guarded(|| %s) {\n        Ok(()) => println!("replay: the real crate behaves as specified on this input"),\n'
                '        Err(e) => { println!("REPLAY FAILS on the real crate: {}", e); std::process::exit(1); }\n    }\n}\n') % (idx, nv['enum'], nv['n'], SEED, nv['enum'], nv['n'], SEED, idx, nv['check'])
        open(os.path.join(tmp, 'src', 'bin', 'replay.rs'), 'w').write(main)
        r = subprocess.run(['cargo', 'run', '--offline', '-q', '--release', '--bin', 'replay'], cwd=tmp, env=env, capture_output=True, text=True, timeout=600)
        panicked = r.returncode not in (0, 1) and 'panicked at' in r.stderr
        extra_src = ''.join('\n// ---- src/%s\n' % f + open(os.path.join(tmp, 'src', f)).read() for f in ('stream_oracle.rs', 'slice_oracle.rs', 'byte_families.rs', 'term_oracle.rs', 'c01_oracle.rs'))
        return {'status': 'replayed-fails' if ((r.returncode == 1 and 'REPLAY FAILS' in r.stdout) or panicked) else 'replay-does-not-fail', 'bound': bound, 'wall_s': wall,
                'inputs': case, 'replay_main': main, 'replay_output': (r.stdout[-1500:] + r.stderr[-500:]) if not panicked else ('REPLAY PANICS on the real crate: ' + r.stderr[-700:]),
                'kani_cmd': 'cargo run --release --bin native_search   (native enumeration)', 'lib_rs': open(os.path.join(tmp, 'src', 'lib.rs')).read() + extra_src}
    finally:
        if not tmp_shared: shutil.rmtree(tmp, ignore_errors=True)

def search(harness, timeout=420, prop=None, scale=1, seed=None):
    if harness in NATIVE: return search_native(harness, timeout, None, prop, scale, seed)
    tmp = tempfile.mkdtemp(prefix='verif_replay_')
    try:
        hs = setup(tmp)
        if harness not in hs: return {'status': 'no-harness'}
        h = hs[harness]
        env = dict(os.environ, CARGO_NET_OFFLINE='true', CARGO_TARGET_DIR=os.path.join(tmp, 'target'))
        cmd = ['cargo', 'kani', '--harness', 'search::search_' + harness, '--exact', '-Z', 'concrete-playback', '--concrete-playback=print', '--output-format', 'terse']
        t0 = time.time()
        rc_, out = run_group(cmd, tmp, env, timeout)
        if rc_ is None:
            return {'status': 'timeout', 'bound': h['bound'], 'wall_s': round(time.time() - t0, 1)}
        wall = round(time.time() - t0, 1)
        if 'VERIFICATION:- SUCCESSFUL' in out:
            return {'status': 'no-counterexample-within-bound', 'bound': h['bound'], 'wall_s': wall}
        m = re.search(r'let concrete_vals: Vec<Vec<u8>> = vec!\[(.*?)\];', out, re.S)
        if not m: return {'status': 'kani-failed', 'bound': h['bound'], 'wall_s': wall, 'tail': out[-800:]}
        vals = [[int(x) for x in v.split(',') if x.strip()] for v in re.findall(r'vec!\[([0-9,\s]*)\]', m.group(1))]
        args = decode(vals, h['args'])
        main = replay_main(h, args)
        os.makedirs(os.path.join(tmp, 'src', 'bin'))
        open(os.path.join(tmp, 'src', 'bin', 'replay.rs'), 'w').write(main)
        r = subprocess.run(['cargo', 'run', '--offline', '-q', '--bin', 'replay'], cwd=tmp, env=dict(env, RUSTFLAGS='-Awarnings'), capture_output=True, text=True, timeout=600)
        panicked = r.returncode not in (0, 1) and 'panicked at' in r.stderr      # the real crate panics on this input: a failure as well
        return {'status': 'replayed-fails' if ((r.returncode == 1 and 'REPLAY FAILS' in r.stdout) or panicked) else 'replay-does-not-fail', 'bound': h['bound'], 'wall_s': wall,
                'inputs': args, 'replay_main': main, 'replay_output': (r.stdout[-1500:] + r.stderr[-500:]) if not panicked else ('REPLAY PANICS on the real crate: ' + r.stderr[-700:]), 'kani_cmd': ' '.join(cmd),
                'lib_rs': open(os.path.join(tmp, 'src', 'lib.rs')).read()}
    finally:
        shutil.rmtree(tmp, ignore_errors=True)

PAIRING = [
    (r'^C19\.(value\.|\w+_to_str\.)|^(safety|proof):to_str::', lambda m: 'c19n'),
    (r'^C16\.(?!Ver(Need|Def)Iterator\.next)|^termination:', lambda m: 'c16n'),
    (r'^C04\.(u8|u16|u32|u64|i32|i64)\.', lambda m: ['c04n', 'c04_' + m.group(1)]),
    (r'^C15\.get_raw\.', lambda m: ['c15n', 'c15']),
    (r'^C15\.get\.', lambda m: ['c15n', 'c15_get']),
    (r'^C09\.(len_is_floor|is_empty_iff_len0)', lambda m: ['c09n', 'c09_len']),
    (r'^C09\.(get\.|next\.|iter)', lambda m: ['c09n', 'c09']),
    (r'^C10\.(verify_ident|parse_ident|from_ei_data)\.', lambda m: ['c10n', 'c10']),
    (r'^(C12\.sysv_hash|C11\.gnu_hash|proof:hash::sysv_hash|proof:hash::gnu_hash)', lambda m: 'hash'),
    (r'^(C07|C08|C17)\.|^C05\.stream_|^C10\.open_stream|^(safety|proof):elf_stream::', lambda m: ['stream', 'streamx']),
    (r'^C20\.|^proof:elf_bytes::ElfBytes::(find_common_data|symbol_table|dynamic_symbol_table|dynamic|section_header_by_name)', lambda m: 'c20n'),
    (r'^C13\.(get_requirement|get_definition|names)\.', lambda m: 'c13n'),
    (r'^C1[12]\.(find|new)\.|^(safety|termination|proof):hash::(SysVHashTable|GnuHashTable)', lambda m: 'hashn'),
    (r'^(safety|termination|proof):gnu_symver::SymbolVersionTable', lambda m: 'c13n'),
    (r'^(safety|proof):elf_bytes::(find_shdrs|find_phdrs|ElfBytes::minimal_parse)', lambda m: 'c05n'),
    (r'^(safety|termination):elf_bytes::ElfBytes::', lambda m: 'c20n'),
    (r'^C05\.(shdrs|phdrs|open)\.', lambda m: 'c05n'),
    (r'^C14\.(note|iter)\.', lambda m: ['c14n', 'c14_a4', 'c14_a8', 'c14_a3']),
    (r'^C03\.(section_range|segment_range|section_data|segment_data)\.', lambda m: ['c03n', 'c03_range']),
    (r'^C1[36]\.VerNeedIterator\.next\.', lambda m: ['c13i', 'c16n', 'c13_need']),
    (r'^C1[36]\.VerDefIterator\.next\.', lambda m: ['c13i', 'c16n', 'c13_def']),
    (r'^C02\.parse_at\.[a-z_]+@ParseAt for (\w+)::parse_at$', lambda m: ['c02n', 'c02_' + m.group(1).lower()]),
    (r'^C02\.size_for@ParseAt for (\w+)::size_for$', lambda m: ['c02n', 'c02_' + m.group(1).lower()]),
    # panic-freedom obligations of the byte-level modules: the native families (a panic inside the crate counts for C01)
    (r'^(safety|termination|proof):endian::', lambda m: 'c04n'),
    (r'^(safety|termination|proof):string_table::', lambda m: 'c15n'),
    (r'^(safety|termination|proof):parse::Parsing', lambda m: 'c09n'),
    (r'^(safety|termination|proof):note::', lambda m: 'c14n'),
    (r'^(safety|termination|proof):gnu_symver::Ver', lambda m: 'c13i'),
    (r'^(safety|termination|proof):file::', lambda m: 'c10n'),
    (r'^(safety|termination|proof):\w+::<impl ParseAt|^(safety|proof):.*ParseAt for', lambda m: 'c02n'),
]
def harnesses_for(obligation):
    """the bounded harnesses paired with an obligation (a pairing may name several, e.g. one per note alignment)"""
    for pat, f in PAIRING:
        m = re.match(pat, obligation)
        if m:
            hs = f(m)
            hs = hs if isinstance(hs, list) else [hs]
            hs = [h for h in hs if (h in HARNESS or h in NATIVE or h in struct_harnesses())]
            # every panic-freedom obligation of the slice parser is also paired with the structured-corruption family of C01
            if obligation.startswith('safety:') and not obligation.startswith('safety:elf_stream::') and 'c01n' not in hs: hs.append('c01n')
            return hs
    if obligation.startswith('safety:') and not obligation.startswith('safety:elf_stream::'): return ['c01n']
    return []
def harness_for(obligation):
    hs = harnesses_for(obligation)
    return hs[0] if hs else None
def search_any(obligation, timeout=420, prop=None):
    """try the paired harnesses in turn; the first failing input that replays wins, otherwise the last result (with all statuses)"""
    last = None; notes = []
    hs_ = harnesses_for(obligation)
    t_end = time.time() + max(2, len(hs_)) * timeout          # overall budget for one obligation
    for h in hs_:
        left = t_end - time.time()
        if left < 60: notes.append('%s: skipped (search budget used up)' % h); continue
        r = dict(search(h, timeout=int(min(timeout, left)), prop=prop), harness=h)
        notes.append('%s: %s' % (h, r.get('status')))
        last = r
        if r.get('status') == 'replayed-fails': break
    if last is not None: last['harnesses_tried'] = notes
    return last

if __name__ == '__main__':
    r = search(sys.argv[1])
    if r and 'lib_rs' in r: r = dict(r, lib_rs='<%d bytes>' % len(r['lib_rs']))
    print(json.dumps(r, indent=1))
