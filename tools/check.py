#!/usr/bin/env python3
"""check -- decide one property: extract the current tree, splice contracts, run Verus, map failures.

usage: ./check <Cxx> [--tier quick|thorough] [--replay PATH]
exit 0: every obligation of the property discharged (known findings are printed and excluded)
exit 1: a failed obligation; prints `VIOLATION property=<id> replay=<path> ...`
exit 2: undecided (lost anchor, unsupported construct, resource limit, tool failure) -- never an alarm
"""
import os, sys, json, time, re, argparse, tomllib, hashlib, subprocess
HERE = os.path.dirname(os.path.abspath(__file__))
ROOT = os.path.dirname(HERE)
sys.path.insert(0, HERE)
import extract, vrun
from extract import Extractor, ExtractError

REPO = os.environ.get('VERIF_REPO', '/repo')
SPEC = os.path.join(ROOT, 'spec')
GEN = os.path.join(ROOT, 'gen')
CACHE = os.path.join(GEN, 'cache')
EVID = os.path.join(ROOT, 'evidence')
REPLAYS = os.path.join(ROOT, 'replays')

def load_props():
    return tomllib.load(open(os.path.join(SPEC, 'properties.toml'), 'rb'))

def load_known():
    p = os.path.join(ROOT, 'known_findings.json')
    if not os.path.exists(p): return []
    return json.load(open(p)).get('findings', [])

class Undecided(Exception):
    pass

def fn_at_line(gen, line):
    best = None
    for f in gen.fns:
        if f.line_start <= line <= f.line_end:
            if best is None or (f.line_end - f.line_start) < (best.line_end - best.line_start):
                best = f
    return best

def module_at_line(text_lines_index, line):
    # text_lines_index: list of (start_line, module)
    mod = None
    for s, m in text_lines_index:
        if s <= line: mod = m
        else: break
    return mod

def module_index(text):
    idx = []
    for i, l in enumerate(text.split('\n'), 1):
        m = re.match(r'pub mod (\w+) \{', l)
        if m: idx.append((i, m.group(1)))
        elif l.startswith('} // mod '): idx.append((i + 1, None))
    return idx

def safety_props(unitcfg, module):
    sp = unitcfg.get('safety_props', {})
    return list(sp.get(module, sp.get('default', [])))

def termination_props(unitcfg, module):
    tp = unitcfg.get('termination_props', {})
    return list(tp.get(module, tp.get('default', [])))

def ghost_lines(text):
    """set of line numbers that lie inside a spliced ghost span"""
    out = set()
    i = 0
    G0, G1 = extract.G_OPEN, extract.G_CLOSE
    while True:
        a = text.find(G0, i)
        if a < 0: break
        b = text.find(G1, a)
        if b < 0: break
        la = text.count('\n', 0, a) + 1
        lb = text.count('\n', 0, b) + 1
        out.update(range(la, lb + 1))
        i = b + len(G1)
    return out

def map_failures(res, gen, unitcfg):
    """-> (failures, undecided) ; failure = dict(props, obligation, fn, kind, message, clause, src)"""
    fails, undec = [], []
    midx = module_index(gen.text)
    if not hasattr(gen, '_ghost'): gen._ghost = ghost_lines(gen.text)
    for d in res['diags']:
        status, kind = vrun.classify(d['message'])
        if d.get('rustc_code'):
            status, kind = 'undecided', 'front-end'
        if status == 'unknown':
            # verification ran to completion (there are results), so an error diagnostic with a span is a
            # failed obligation whose wording is not in the table; without results it is a front-end error
            status, kind = (('failed', 'other-proof') if res.get('have_results') and d['spans'] else ('undecided', 'front-end'))
        labels = list(d.get('labels', []))
        prim = [s for s in d['spans'] if s['is_primary']] or d['spans']
        line = prim[0]['line_start'] if prim else 0
        # the function whose proof failed: for a precondition failure it is the caller (primary span);
        # for a postcondition the function containing the clause (same fn)
        fn = None
        # for a failed postcondition / invariant the primary span is the CLAUSE (which, for a trait-level clause, lies in the
        # trait's declaration); the function whose body failed is where the other span ("at this exit", "at the end of the
        # function body") points.  For everything else the primary span is inside the failing function.
        order = (prim + d['spans'])
        if kind in ('postcondition',) and status == 'failed':
            order = [x for x in d['spans'] if not x['is_primary']] + prim
        for s in order:
            fn = fn_at_line(gen, s['line_start'])
            if fn: break
        mod = module_at_line(midx, line)
        if status == 'undecided':
            undec.append({'message': d['message'], 'fn': fn.path if fn else None, 'module': mod, 'kind': kind, 'line': line,
                          'rendered': d['rendered'], 'labels': list(fn.labels) if fn else []})
            continue
        if fn is not None and fn.lost_hints and not [l for l in labels if l.startswith('CANARY:')]:
            undec.append({'message': d['message'] + ' (a proof hint of this function could not be placed: %s)' % fn.lost_hints[0], 'fn': fn.path,
                          'module': fn.module, 'kind': 'lost-hint', 'line': line, 'rendered': d['rendered'], 'labels': list(fn.labels)})
            continue
        if kind == 'precondition' and not labels and line in gen._ghost:
            kind = 'assertion'     # the precondition of a lemma called from a spliced proof hint: a proof step, not a panic
        canary = [l for l in labels if l.startswith('CANARY:')]
        labels = [l for l in labels if not l.startswith('CANARY:')]
        f = {'kind': kind, 'message': d['message'], 'fn': fn.path if fn else None, 'module': fn.module if fn else mod,
             'src': ('%s:%d' % (fn.src_file, fn.src_line)) if fn else None, 'line': line, 'rendered': d['rendered'],
             'canary': canary[0] if canary else None, 'labels': labels}
        props = set()
        clause_txt = None
        if canary:
            f['obligation'] = canary[0]; f['props'] = []; f['clause'] = None
            fails.append(f)
            continue
        if labels and kind in ('postcondition', 'precondition', 'invariant', 'assertion'):
            for l in labels:
                c = gen.clauses.get(l)
                if c:
                    props.update(c['own']); props.update(c['dep'])
                    clause_txt = c['text']
            f['obligation'] = labels[0]
            c0 = gen.clauses.get(labels[0])
            if c0 and fn is not None and kind != 'precondition' and fn.path != c0['fn']:
                f['obligation'] = '%s@%s' % (labels[0], fn.path)
        elif fn is None:
            # failure inside the prelude / module-level ghost code: infrastructure, not the code under test
            undec.append({'message': d['message'], 'fn': None, 'module': mod, 'kind': 'prelude-proof', 'line': line, 'rendered': d['rendered']})
            continue
        else:
            m = fn.module
            if kind in ('arith', 'panic', 'precondition'):
                props.update(safety_props(unitcfg, m))
                if kind == 'arith':
                    # Verus assumes "no overflow" after reporting it: the function's own clauses are then proved
                    # only under that assumption, i.e. not for builds where the arithmetic wraps
                    for l in fn.labels:
                        props.update(gen.clauses[l]['own'])
                f['obligation'] = 'safety:%s::%s' % (m, fn.path)
            elif kind == 'decreases':
                props.update(termination_props(unitcfg, m))
                f['obligation'] = 'termination:%s::%s' % (m, fn.path)
            else:
                # assertion / unlabelled invariant: the whole contract of the function is not established
                own = set()
                for l in fn.labels:
                    own.update(gen.clauses[l]['own'])
                if own:
                    props.update(own)
                else:
                    props.update(safety_props(unitcfg, m))
                f['obligation'] = 'proof:%s::%s' % (m, fn.path)
        f['props'] = sorted(props)
        f['clause'] = clause_txt
        fails.append(f)
    return fails, undec

def trait_impl_fns(gen, clause_fn):
    """clause_fn 'Trait::method' -> FnRecords of 'Trait for X::method' (every impl must meet the trait clause)"""
    if '::' not in clause_fn: return []
    tr, _, meth = clause_fn.rpartition('::')
    if ' for ' in tr: return []
    return [f for f in gen.fns if f.path.startswith(tr + ' for ') and f.path.endswith('::' + meth)]

def modules_for(prop, gen, unitcfg, pcfg):
    mods = set(pcfg.get('modules', []))
    for l, c in gen.clauses.items():
        if prop in c['own'] or prop in c['dep']:
            mods.add(c['module'])
            if prop in c['own']:
                for f in trait_impl_fns(gen, c['fn']):
                    mods.add(f.module)
    for m in gen.modules:
        if prop in safety_props(unitcfg, m) or prop in termination_props(unitcfg, m):
            mods.add(m)
    return [m for m in gen.modules if m in mods]

def obligations_for(prop, gen, unitcfg, mods):
    obs = []
    for l, c in gen.clauses.items():
        if c['module'] in mods and (prop in c['own'] or prop in c['dep']):
            obs.append(l)
            for f in trait_impl_fns(gen, c['fn']):
                if f.module in mods and f.has_body:
                    obs.append('%s@%s' % (l, f.path))
    for f in gen.fns:
        if f.module in mods and f.has_body and not f.external:
            if prop in safety_props(unitcfg, f.module):
                obs.append('safety:%s::%s' % (f.module, f.path))
            if prop in termination_props(unitcfg, f.module) and f.loops:
                obs.append('termination:%s::%s' % (f.module, f.path))
    return obs

def write_replay(prop, f, res, idx, sr=None, native=None):
    d = os.path.join(REPLAYS, prop)
    os.makedirs(d, exist_ok=True)
    ts = time.strftime('%Y%m%dT%H%M%S')
    path = os.path.join(d, '%s_%02d.json' % (ts, idx))
    extra = {}
    if sr:
        extra['replay_search'] = {k: v for k, v in sr.items() if k != 'lib_rs'}
        if sr.get('status') == 'replayed-fails':
            pd = os.path.join(d, '%s_%02d_program' % (ts, idx))
            os.makedirs(os.path.join(pd, 'src', 'bin'), exist_ok=True)
            parts = re.split(r'\n// ---- src/(\w+\.rs)\n', sr['lib_rs'])
            open(os.path.join(pd, 'src', 'lib.rs'), 'w').write(parts[0])
            for k_ in range(1, len(parts) - 1, 2): open(os.path.join(pd, 'src', parts[k_]), 'w').write(parts[k_ + 1])
            open(os.path.join(pd, 'src', 'bin', 'replay.rs'), 'w').write(sr['replay_main'])
            open(os.path.join(pd, 'Cargo.toml'), 'w').write('[package]\nname = "elf-verif-replay"\nversion = "0.1.0"\nedition = "2021"\n\n[dependencies]\nelf = { path = "%s" }\n\n[workspace]\n' % REPO)
            extra['replay_program'] = pd
            extra['how_to_replay'] = 'cd %s && CARGO_TARGET_DIR=$(mktemp -d) cargo run --offline -q --bin replay   (exits 1 and prints REPLAY FAILS while the defect is present)' % pd
    if native and not (sr and sr.get('status') == 'replayed-fails'):
        # the property's native families ran on the same tree: whether they saw a failing input is part of the record --
        # a rejected proof obligation with NO failing input from any family may be a proof that no longer goes through for an
        # equivalent formulation (a possible false alarm) rather than a defect
        extra['native_oracles_of_this_property'] = {h: r.get('status') for h, r in native.items()}
        extra['native_oracles_note'] = ('the native families of this property found a failing input on this tree (see the bounded:native:* violation of the same run)'
                                        if any(r.get('status') == 'replayed-fails' for r in native.values()) else
                                        'native oracles of this property found no failing input: if the edited code is an equivalent formulation, this obligation may have failed only because its proof no longer goes through')
    json.dump({'property': prop, 'failed_obligation': f['obligation'], 'kind': f['kind'], 'function': f['fn'], 'module': f['module'],
               'source': f['src'], 'clause': f['clause'], 'verifier_message': f['message'], 'verifier_output': f['rendered'],
               'checker_cmd': res.get('cmd', ''), 'failing_input': (sr or {}).get('inputs') if (sr and sr.get('status') == 'replayed-fails') else None,
               'note': ('Verus gives no counterexample; a failing input was found by the paired bounded Kani harness and replayed against the real crate.'
                        if (sr and sr.get('status') == 'replayed-fails') else
                        'Verus gives no counterexample; no failing input was found for this obligation. Re-run: ./check %s' % prop), **extra},
              open(path, 'w'), indent=1)
    return path

class UnitRun:
    pass

_BASELINE = None
def new_function_rule(unit, gen, fails, undec):
    """Modular verification checks a caller against its callees' CONTRACTS.  A function that is not in the baseline list
    (spec/baseline_fns.json: the functions the contracts were written against) has no contract, so
      * a failed obligation of a function that calls such a NEW function (e.g. a helper extracted by a refactor), and
      * a failed safety obligation inside a NEW function (its callers' guarantees are unknown to it)
    say nothing about the code: they become UNDECIDED.  (The bounded replay search may still turn them into a violation
    with a concrete failing input.)"""
    global _BASELINE
    if _BASELINE is None:
        try: _BASELINE = json.load(open(os.path.join(SPEC, 'baseline_fns.json')))
        except Exception: _BASELINE = {}
    base = set(_BASELINE.get(unit, []))
    if not base: return fails, undec
    newfns = [f for f in gen.fns if ('%s::%s' % (f.module, f.path)) not in base]
    if not newfns: return fails, undec
    newnames = {}
    for f in newfns: newnames[f.path.split('::')[-1]] = f
    lines = gen.text.split('\n')
    keep = []
    for x in fails:
        if x.get('canary'): keep.append(x); continue
        rec = next((g_ for g_ in gen.fns if g_.path == x['fn'] and g_.module == x['module']), None)
        reason = None
        if rec is not None and ('%s::%s' % (rec.module, rec.path)) not in base:
            reason = 'the function %s is not one the contracts were written against (added by this change)' % rec.path
        elif rec is not None:
            body = '\n'.join(lines[rec.line_start - 1:rec.line_end])
            called = sorted(n for n in newnames if re.search(r'(?<![A-Za-z0-9_])%s\s*(::\s*<[^>]*>)?\s*\(' % re.escape(n), body))
            if called:
                reason = 'it calls %s, added by this change and without a contract (modular verification cannot see through it)' % ', '.join(called)
        if reason:
            undec.append({'message': '%s -- not decided: %s' % (x['message'], reason), 'fn': x['fn'], 'module': x['module'], 'kind': 'lost-anchor',
                          'line': x.get('line', 0), 'rendered': x.get('rendered', ''), 'labels': list(rec.labels) if rec else [], 'src': x.get('src'),
                          'props': list(x.get('props') or [])})
        else:
            keep.append(x)
    return keep, undec

def run_unit(prop, unit, pcfg, cache, usize=8, seed=None, want_canary=True, force_external=None, depth=0, target_endian='little'):
    """extract + verify one unit for one property; returns a UnitRun (raises Undecided/ExtractError)"""
    from concurrent.futures import ThreadPoolExecutor
    u = UnitRun()
    force = dict(force_external or {})
    ex = Extractor(REPO, SPEC, unit, usize_bytes=usize, force_external=force, target_endian=target_endian)
    gen = ex.build()
    unitcfg = ex.unit
    tag = 'u_%s%s%s' % (unit, '' if usize == 8 else '_usize%d' % usize, '' if target_endian == 'little' else '_be')
    gpath = os.path.join(GEN, tag + '.rs')
    open(gpath, 'w').write(gen.text)
    mods = modules_for(prop, gen, unitcfg, pcfg)
    if not mods: raise Undecided('no module of unit %s carries an obligation of %s' % (unit, prop))
    rlimit = pcfg.get('rlimit', 30)
    genc = cpath = None
    if want_canary:
        genc = Extractor(REPO, SPEC, unit, usize_bytes=usize, canary=True, force_external=force, target_endian=target_endian).build()
        cpath = os.path.join(GEN, tag + '_canary.rs')
        open(cpath, 'w').write(genc.text)
    def verify(path, g_, threads):
        """run Verus; a `by (compute_only)` assertion that evaluates to false aborts Verus before SMT: that is a
        failed obligation (a constant's value), not a tool failure -- record it and verify the remaining modules"""
        r = vrun.run(path, mods, rlimit, threads, seed, cache)
        cfails = []
        if not r['have_results']:
            comp = [d for d in r['diags'] if re.search(r'expression simplifies to .* evaluates to false', d['message']) and d.get('labels')]
            if comp:
                cfails, _ = map_failures({'diags': comp, 'have_results': True}, g_, unitcfg)
                for f in cfails: f['cmd'] = r['cmd']
                mods2 = [m for m in mods if m != 'abi_values']
                if mods2:
                    r = vrun.run(path, mods2, rlimit, threads, seed, cache)
                else:
                    r = dict(r, have_results=True, verified=0, errors=len(comp), diags=[])
        return r, cfails
    with ThreadPoolExecutor(max_workers=2) as tp:
        f1 = tp.submit(verify, gpath, gen, 16)
        f2 = tp.submit(verify, cpath, genc, 4) if want_canary else None
        res, comp_fails = f1.result()
        cres = f2.result()[0] if f2 else None
    if not res['have_results'] and depth < 4:
        # Verus' front end rejected something (unsupported construct, type error in spliced text ...).  If every such
        # diagnostic lies inside a function of the repository, leave exactly those functions unverified
        # (external_body, flagged `lost`: undecided for the properties that relate to them) and verify the rest.
        bad = {}
        for d in res['diags']:
            sp = [x for x in d['spans'] if x['is_primary']] or d['spans']
            if not sp: continue                      # summary lines ("aborting due to ..") carry no location
            # a name of the spliced contract text that the edited module no longer imports: take rustc's suggested import
            mu = re.search(r'^\s*\d+\s*\+\s*(use crate::[A-Za-z0-9_:]+);', d.get('rendered', ''), re.M)
            if d.get('rustc_code') in ('E0425', 'E0412', 'E0433', 'E0405', 'E0422', 'E0531') and mu:
                mod_ = module_at_line(module_index(gen.text), sp[0]['line_start'])
                if mod_ and (mod_, mu.group(1)) not in force:
                    bad[(mod_, mu.group(1))] = 'import repair'
                    continue
            f = fn_at_line(gen, sp[0]['line_start'])
            if f is None:
                # not inside a function: a const item whose initialiser the front end rejects is left out (external)
                c = next((c for c in getattr(gen, 'consts', []) if c.line_start <= sp[0]['line_start'] <= c.line_end and not c.external), None)
                if c is None: bad = None; break
                bad[(c.module, 'const ' + c.name)] = 'Verus front end: ' + d['message'][:200]
                continue
            if f.external: bad = None; break
            bad[(f.module, f.path)] = 'Verus front end: ' + d['message'][:200]
            # one diagnostic may list further occurrences of the same construct in other functions (secondary spans)
            for x in d['spans']:
                f2 = fn_at_line(gen, x['line_start'])
                if f2 is not None and not f2.external: bad.setdefault((f2.module, f2.path), 'Verus front end: ' + d['message'][:200])
        if bad:
            force.update(bad)
            return run_unit(prop, unit, pcfg, cache, usize, seed, want_canary, force, depth + 1)
    if not res['have_results']:
        fe = [d for d in res['diags']]
        msg = fe[0]['rendered'] if fe else res['raw_err_tail']
        raise Undecided('Verus produced no verification result for unit %s (front-end error or tool failure):\n%s' % (unit, msg))
    fails, undec = map_failures(res, gen, unitcfg)
    fails = comp_fails + fails
    fe = [x for x in undec if x['kind'] == 'front-end']
    if fe:
        raise Undecided('Verus rejected unit %s before/while verifying (unsupported construct or type error): %s\n%s' % (unit, fe[0]['message'], fe[0]['rendered']))
    exp_in, failed_canaries = set(), set()
    if want_canary:
        if not cres['have_results']:
            msg = cres['diags'][0]['rendered'] if cres['diags'] else cres.get('raw_err_tail', '')
            raise Undecided('the vacuity (canary) pass of unit %s produced no verification result:\n%s' % (unit, msg[:1500]))
        cf, cu = map_failures(cres, genc, unitcfg)
        midx = module_index(genc.text)
        for m in re.finditer(r'/\*#(CANARY:[^*]+)\*/', genc.text):
            line = genc.text.count('\n', 0, m.start()) + 1
            if module_at_line(midx, line) in mods: exp_in.add(m.group(1))
        failed_canaries = set(f['canary'] for f in cf if f.get('canary'))
        passed = sorted(exp_in - failed_canaries)
        if passed:
            raise Undecided('vacuity guard: assert(false) was PROVED at %s -- a precondition or axiom set is contradictory' % passed)
    # a resource-limit hit is not a verdict: retry each such function alone with a larger budget and few errors
    rl = [x for x in undec if x['kind'] == 'rlimit' and x.get('fn')]
    if rl and depth < 4:
        redo = {}
        for x in rl:
            f = next((g_ for g_ in gen.fns if g_.path == x['fn'] and g_.module == x['module']), None)
            if f is not None: redo[(f.module, f.path)] = f
        for (m_, p_), f in list(redo.items())[:4]:
            vname = p_.split(' for ', 1)[1] if ' for ' in p_ else p_       # `Trait for Type::m` is addressed as `Type::m`
            r2 = vrun.run(gpath, [], rlimit * 5, 8, seed, cache, extra=['--verify-only-module', m_, '--verify-function', vname], multiple_errors=2)
            if not r2['have_results']: continue
            f2, u2 = map_failures(r2, gen, unitcfg)
            # keep only results about this function
            f2 = [y for y in f2 if y['fn'] == p_ and y['module'] == m_]
            u2 = [y for y in u2 if y.get('fn') == p_ and y.get('module') == m_]
            undec = [y for y in undec if not (y.get('fn') == p_ and y.get('module') == m_ and y['kind'] == 'rlimit')]
            fails = [y for y in fails if not (y['fn'] == p_ and y['module'] == m_)] + f2
            undec += u2
            # still out of resources: split the query -- one generated variant of the function per postcondition of this
            # property (all preconditions, loop invariants and hints kept), four at a time, each with the larger budget
            if any(y['kind'] == 'rlimit' for y in u2) and not f2:
                labs = [l for l in f.labels if l in gen.clauses and gen.clauses[l]['kind'] == 'ensures' and (prop in gen.clauses[l]['own'] or prop in gen.clauses[l]['dep'])][:8]
                def split_one(lab):
                    g1 = Extractor(REPO, SPEC, unit, usize_bytes=usize, force_external=force, target_endian=target_endian, only_ensures={(m_, p_): lab}).build()
                    p1 = os.path.join(GEN, '%s_split_%s.rs' % (tag, hashlib.sha1(lab.encode()).hexdigest()[:8]))
                    open(p1, 'w').write(g1.text)
                    r3 = vrun.run(p1, [], rlimit * 5, 4, seed, cache, extra=['--verify-only-module', m_, '--verify-function', vname], multiple_errors=1)
                    if not r3['have_results']: return lab, [], [{'kind': 'rlimit'}]
                    f3, u3 = map_failures(r3, g1, unitcfg)
                    return lab, [y for y in f3 if y['fn'] == p_ and y['module'] == m_], [y for y in u3 if y.get('fn') == p_ and y.get('module') == m_]
                with ThreadPoolExecutor(max_workers=4) as tp:
                    parts = list(tp.map(split_one, labs))
                got_f = [y for _, fs, _ in parts for y in fs]
                if got_f:
                    # a postcondition that fails on its own is a failed obligation whatever the others do
                    undec = [y for y in undec if not (y.get('fn') == p_ and y.get('module') == m_ and y['kind'] == 'rlimit')]
                    fails += got_f
                elif labs and all(not us for _, _, us in parts):
                    undec = [y for y in undec if not (y.get('fn') == p_ and y.get('module') == m_ and y['kind'] == 'rlimit')]
    for f in gen.fns:
        if f.lost and f.module in mods:
            undec.append({'message': 'contract anchors lost, function left unverified (external_body): %s' % f.lost, 'fn': f.path, 'module': f.module,
                          'kind': 'lost-anchor', 'line': f.line_start, 'rendered': '', 'labels': list(f.labels)})
        for lab in f.lost_sites:
            undec.append({'message': 'site obligation %s could not be placed' % lab, 'fn': f.path, 'module': f.module, 'kind': 'lost-anchor',
                          'line': f.line_start, 'rendered': '', 'labels': [lab], 'site_only': True})
    for cname in getattr(gen, 'lost_value_clauses', []):
        undec.append({'message': 'constant abi::%s is left out of verification (its initialiser is outside the verifier\'s reach); its reference-value clause is not decided' % cname,
                      'fn': None, 'module': 'abi', 'kind': 'lost-anchor', 'line': 0, 'rendered': '', 'labels': [], 'props': ['C19']})
    fails, undec = new_function_rule(unit, gen, fails, undec)
    def relevant(x):
        if x.get('props') is not None: return prop in x['props']      # a failed obligation turned undecided keeps its own property set
        if x.get('fn') is None: return x.get('module') in mods or x.get('module') is None
        labs = x.get('labels') or []
        if any(prop in gen.clauses[l]['own'] or prop in gen.clauses[l]['dep'] for l in labs if l in gen.clauses): return True
        if x.get('site_only'): return False          # the body is verified; only the clause that could not be placed is undecided
        m = x.get('module')
        return prop in safety_props(unitcfg, m) or prop in termination_props(unitcfg, m)
    undec = [x for x in undec if relevant(x)]
    u.unit, u.gen, u.unitcfg, u.mods, u.res, u.fails, u.undec = unit, gen, unitcfg, mods, res, fails, undec
    u.canaries, u.canaries_failed = exp_in, exp_in & failed_canaries
    u.obs = obligations_for(prop, gen, unitcfg, mods)
    return u

def main():
    ap = argparse.ArgumentParser()
    ap.add_argument('prop')
    ap.add_argument('--tier', default=os.environ.get('VERIF_TIER', 'quick'))
    ap.add_argument('--replay')
    ap.add_argument('--no-cache', action='store_true')
    ap.add_argument('--keep', action='store_true')
    ap.add_argument('--no-evidence', action='store_true', help='self-test on a scratch copy: do not overwrite evidence/')
    a = ap.parse_args()
    if a.replay:
        print(open(a.replay).read())
        print('--- re-running the check on the current tree')
    t0 = time.time()
    seed = int(os.environ.get('VERIF_SEED', '0') or 0)
    prop = a.prop
    props = load_props()
    if prop not in props['property']:
        print('unknown or unclaimed property %s' % prop); return 2
    pcfg = props['property'][prop]
    units = pcfg.get('units') or [pcfg.get('unit', 'core')]
    # generated files of this invocation go to a private directory (several checks may run concurrently); the cache is shared
    global GEN
    import atexit, shutil
    GEN = os.path.join(ROOT, 'gen', 'run-%d' % os.getpid())
    os.makedirs(GEN, exist_ok=True); os.makedirs(EVID, exist_ok=True)
    if not a.keep: atexit.register(lambda: shutil.rmtree(GEN, ignore_errors=True))
    tier = a.tier if a.tier in ('quick', 'thorough') else 'quick'
    cache = None if (a.no_cache or tier == 'thorough') else CACHE
    runs = []
    extra = {}
    try:
        if len(units) > 1:
            from concurrent.futures import ThreadPoolExecutor
            with ThreadPoolExecutor(max_workers=len(units)) as tp:
                futs = [tp.submit(run_unit, prop, unit, pcfg, cache) for unit in units]
                runs = [f.result() for f in futs]
        else:
            runs.append(run_unit(prop, units[0], pcfg, cache))
        bounded = dict(pcfg.get('kani_bounded', {}))     # harness -> stated bound: BOUNDED stand-ins, never counted as proved
        kani_sel = list(pcfg.get('kani_quick', [])) + (list(pcfg.get('kani_thorough', [])) if tier == 'thorough' else []) + sorted(bounded)
        if kani_sel:
            import kani_run
            kr = kani_run.run(kani_sel)
            extra.setdefault('report', {})['kani'] = {k: v for k, v in kr.items() if k != 'tail'}
            for h in bounded:
                if h not in kr['harnesses']:
                    extra.setdefault('undecided', []).append({'message': 'bounded Kani harness %s produced no result' % h, 'fn': h, 'module': 'kani', 'kind': 'kani'})
            for h, v in sorted(kr['harnesses'].items()):
                ob = ('bounded:kani:' if h in bounded else 'kani:') + h
                if h in bounded:
                    extra.setdefault('bounded', []).append({'harness': h, 'bound': bounded[h], 'status': v['status'], 'counted_as_proved': False})
                else:
                    extra.setdefault('obligations', []).append(ob)
                if v['status'] == 'FAILED':
                    extra.setdefault('fails', []).append({'kind': 'kani', 'message': 'Kani harness %s FAILED' % h, 'fn': h, 'module': 'kani', 'src': 'kani/src/lib.rs',
                        'line': 0, 'rendered': kr.get('tail', ''), 'canary': None, 'labels': [], 'obligation': ob, 'props': [prop], 'clause': None, 'cmd': kr['cmd']})
                elif v['status'] != 'SUCCESSFUL':
                    extra.setdefault('undecided', []).append({'message': 'Kani harness %s: %s' % (h, v['status']), 'fn': h, 'module': 'kani', 'kind': 'kani'})
            if not kr['harnesses']:
                extra.setdefault('undecided', []).append({'message': 'Kani produced no result: ' + kr.get('tail', '')[-400:], 'fn': None, 'module': 'kani', 'kind': 'kani'})
        # bounded cross-validation in the QUICK tier: the native oracles of the property (written from the property text, a few
        # seconds each, one build) run against the current tree.  A failing input that replays on the real crate is a violation
        # whatever Verus says (this is how finding F7 surfaced); "nothing found" is reported as bounded and never counted as proved.
        native_sel = [h for h in pcfg.get('native_quick', [])]
        if native_sel and not os.environ.get('VERIF_NO_NATIVE_ORACLES'):
            import replay_search
            try: nres = replay_search.native_batch(native_sel, timeout=int(os.environ.get('VERIF_REPLAY_TIMEOUT', '400')), prop=prop)
            except Exception as e: nres = {h: {'status': 'search-error: %s' % e} for h in native_sel}
            extra.setdefault('report', {})['native_oracles'] = {h: {k: v for k, v in r.items() if k in ('status', 'bound', 'wall_s', 'inputs', 'replay_output')} for h, r in nres.items()}
            for h, r in sorted(nres.items()):
                extra.setdefault('bounded', []).append({'harness': 'native:' + h, 'bound': r.get('bound', '?'), 'status': r.get('status'), 'counted_as_proved': False})
                if r.get('status') == 'replayed-fails':
                    extra.setdefault('fails', []).append({'kind': 'bounded-oracle', 'message': 'the native oracle %s fails on the real crate for a concrete input: %s' % (h, (r.get('replay_output') or '')[:300]),
                        'fn': h, 'module': 'native-oracle', 'src': 'kani/replay_src/*_oracle.rs', 'line': 0, 'rendered': r.get('replay_output', ''), 'canary': None, 'labels': [],
                        'obligation': 'bounded:native:' + h, 'props': [prop], 'clause': None, 'cmd': r.get('kani_cmd', ''), '_search': dict(r, harness=h)})
        if tier == 'thorough':
            import thorough
            ex2 = thorough.run(prop, pcfg, units, runs, seed, run_unit, Undecided)
            for k, v in ex2.items():
                if k == 'report': extra.setdefault('report', {}).update(v)
                else: extra.setdefault(k, []).extend(v)
    except (ExtractError, Undecided, extract.RsxError) as e:
        # the unit could not be verified at all (e.g. a contract no longer type-checks against a retyped data structure).  The
        # code is still executable: the property's paired bounded oracles may find an input that fails on the real crate.
        cand = ([] if os.environ.get('VERIF_NO_NATIVE_ORACLES') else list(pcfg.get('native_quick', []))) + ([] if os.environ.get('VERIF_NO_REPLAY_SEARCH') else [h for h in pcfg.get('replay_harnesses_thorough', []) if h not in pcfg.get('native_quick', [])])
        if cand:
            import replay_search
            allh = dict(replay_search.HARNESS); allh.update(replay_search.struct_harnesses())
            hs = [h for h in cand if h != 'c02_*'] + (sorted(h for h in allh if h.startswith('c02_')) if 'c02_*' in cand else [])
            t_end = time.time() + 3 * int(os.environ.get('VERIF_REPLAY_TIMEOUT', '400'))
            for h in hs:
                if time.time() > t_end: break
                try: sr = dict(replay_search.search(h, timeout=int(os.environ.get('VERIF_REPLAY_TIMEOUT', '400')), prop=prop), harness=h)
                except Exception as e2: sr = {'status': 'search-error: %s' % e2, 'harness': h}
                print('UNDECIDED property=%s: bounded search %s (%s): %s' % (prop, h, sr.get('bound', '?'), sr.get('status')))
                if sr.get('status') == 'replayed-fails':
                    f = {'obligation': 'bounded:replay:' + h, 'kind': 'undecided-by-verus+failing-input', 'fn': h, 'module': 'kani', 'src': 'kani/replay_src/checks.rs', 'line': 0,
                         'clause': None, 'message': 'Verus could not verify the unit (%s); the bounded oracle %s found an input that fails on the real crate' % (str(e)[:300], h),
                         'rendered': str(e)[:3000], 'props': [prop], 'labels': [], 'canary': None}
                    pth = write_replay(prop, f, {'cmd': ''}, 0, sr)
                    print('VIOLATION property=%s replay=%s obligation=%s function=%s %s failing-input-replayed-on-the-real-crate' % (prop, pth, f['obligation'], h, f['src']))
                    return 1
        print('UNDECIDED property=%s: %s' % (prop, e))
        return 2
    obs, fails, undec = [], [], []
    for u in runs:
        for o in u.obs:
            if o not in obs: obs.append(o)
        for f in u.fails:
            if not any(g['obligation'] == f['obligation'] and g['fn'] == f['fn'] and g['line'] == f['line'] and g.get('unit') == u.unit for g in fails):
                f['unit'] = u.unit; f['cmd'] = u.res['cmd']; fails.append(f)
        undec += u.undec
    for f in extra.get('fails', []):
        fails.append(f)
    relevant = [f for f in fails if prop in f['props']]
    # the same obligation reported by two units (core and std share modules) is one violation
    seen = set(); rel2 = []
    for f in relevant:
        k = (f['obligation'], f['line'] if f.get('unit') == relevant[0].get('unit') else f['obligation'])
        key = (f['obligation'], f['message'], f['fn'])
        if key in seen: continue
        seen.add(key); rel2.append(f)
    relevant = rel2
    rel_undec = undec + extra.get('undecided', [])
    known = [k for k in load_known() if k.get('kind') == 'known' and k.get('property') == prop]
    viol, knownhits = [], []
    for f in relevant:
        k = [k for k in known if k.get('obligation') == f['obligation']]
        if k: knownhits.append((f, k[0]))
        else: viol.append(f)
    searched = {}
    search_notes = []
    # A function whose contract could not be decided (its code was rewritten past the proof's anchors, or uses an API without a
    # specification) is still executable: if a paired bounded Kani harness -- the same postcondition as executable code --
    # finds an input and that input FAILS when replayed on the real crate, the failing input itself is the violation.
    # (Nothing found => the verdict stays undecided; the bounded search never turns into an OK.)
    if not viol and rel_undec and not os.environ.get('VERIF_NO_REPLAY_SEARCH'):
        import replay_search
        allcl = {}
        for u in runs: allcl.update(u.gen.clauses)
        tried = set()
        for x in rel_undec:
            if x.get('kind') not in ('lost-anchor', 'rlimit', 'lost-hint'): continue
            for l in x.get('labels', []):
                c = allcl.get(l)
                if not c or not (prop in c['own'] or prop in c['dep']): continue
                h = replay_search.harness_for(l) or replay_search.harness_for('%s@%s' % (l, x.get('fn') or ''))
                if not h or h in tried: continue
                tried.add(h)
                try:
                    sr = replay_search.search_any(l if replay_search.harness_for(l) else '%s@%s' % (l, x.get('fn') or ''), timeout=int(os.environ.get('VERIF_REPLAY_TIMEOUT', '400')), prop=prop)
                except Exception as e:
                    sr = {'status': 'search-error: %s' % e, 'harness': h}
                search_notes.append('bounded search %s (%s): %s' % (h, sr.get('bound', '?'), sr.get('status')))
                if sr.get('status') == 'replayed-fails':
                    f = {'obligation': l if '@' not in l and ' for ' not in (x.get('fn') or '') else '%s@%s' % (l, x['fn']), 'kind': 'undecided-by-verus+failing-input', 'fn': x.get('fn'), 'module': x.get('module'),
                         'src': x.get('src') or '', 'line': x.get('line', 0), 'clause': c['text'],
                         'message': 'Verus could not decide this function (%s); the paired bounded Kani harness %s found an input that fails on the real crate' % (x['message'][:200], h),
                         'rendered': x.get('rendered', ''), 'props': [prop], 'labels': [l], 'canary': None}
                    searched[f['obligation']] = sr
                    viol.append(f); relevant.append(f)
                    break
            if viol: break
    failed_obs = set(f['obligation'] for f in relevant)
    for f in relevant:
        if f['obligation'] not in obs and not f['obligation'].startswith('bounded:'): obs.append(f['obligation'])
    obs += extra.get('obligations', [])
    discharged = [o for o in obs if o not in failed_obs]
    for f, k in knownhits:
        print('KNOWN-FINDING: property=%s %s (%s)' % (prop, f['obligation'], k.get('what', '')))
    rc = 0
    replay_paths = []
    # look for a concrete failing input for (at most) one violation that has a paired Kani harness; time-boxed
    if viol and not os.environ.get('VERIF_NO_REPLAY_SEARCH'):
        import replay_search
        for f in viol:
            h = replay_search.harness_for(f['obligation'])
            if h:
                try:
                    searched[f['obligation']] = replay_search.search_any(f['obligation'], timeout=int(os.environ.get('VERIF_REPLAY_TIMEOUT', '400')), prop=prop)
                except Exception as e:
                    searched[f['obligation']] = {'status': 'search-error: %s' % e, 'harness': h}
                break
    for f in viol:
        if f.get('_search'): searched[f['obligation']] = f['_search']     # thorough tier: the oracle run already holds the replayed input
    for i, f in enumerate(viol):
        sr = searched.get(f['obligation'])
        p = write_replay(prop, f, {'cmd': f.get('cmd', '')}, i, sr, native=(extra.get('report', {}) or {}).get('native_oracles'))
        replay_paths.append(p)
        tail = 'no-failing-input-found' if not (sr and sr.get('status') == 'replayed-fails') else 'failing-input-replayed-on-the-real-crate'
        print('VIOLATION property=%s replay=%s obligation=%s function=%s %s %s' % (
            prop, p, f['obligation'], f['fn'], f['src'] or '', tail))
        rc = 1
    if rc == 0 and rel_undec:
        for x in rel_undec[:5]:
            print('UNDECIDED property=%s: %s in %s (%s)' % (prop, x['message'], x.get('fn') or x.get('module'), x['kind']))
        for n_ in search_notes: print('UNDECIDED property=%s: %s' % (prop, n_))
        rc = 2
    wall = time.time() - t0
    # ---------------- evidence
    gen0 = runs[0].gen
    allclauses = {}
    for u in runs: allclauses.update(u.gen.clauses)
    samples = []
    for l in [o for o in obs if not o.startswith(('safety:', 'termination:', 'proof:', 'kani:', 'bits32:')) and '@' not in o][:6]:
        c = allclauses.get(l)
        if c: samples.append({'obligation': l, 'function': c['fn'], 'kind': c['kind'], 'clause': c['text'], 'own': c['own'], 'dep': c['dep']})
    for o in [o for o in obs if o.startswith('safety:')][:2]:
        samples.append({'obligation': o, 'kind': 'safety: no overflow/underflow, division by zero, bad shift, out-of-bounds index, failed unwrap/expect in this function, for all inputs'})
    for o in [o for o in obs if o.startswith('termination:')][:2]:
        samples.append({'obligation': o, 'kind': 'termination: every loop of this function has a decreases measure that Verus checks'})
    fns_under_contract = sorted(set('%s::%s' % (f.module, f.path) for u in runs for f in u.gen.fns if f.module in u.mods and f.labels and any(
        prop in u.gen.clauses[l]['own'] or prop in u.gen.clauses[l]['dep'] for l in f.labels)))
    trusted = trusted_base(runs, props, pcfg)
    ev = {
        'property_id': prop, 'tier': tier, 'seed': seed, 'level': pcfg.get('level', 'proof'),
        'coverage': {
            'obligations': len(obs), 'discharged': len(discharged),
            'checker_cmd': ' ;; '.join(u.res['cmd'] for u in runs) + '  (cwd=%s, a per-run directory removed afterwards -- use --keep to retain it; inputs regenerated from %s/src on this run)' % (GEN, REPO),
            'trusted_base': trusted,
            'samples': samples,
            'exhaustive': False,
            'back_end': 'Verus %s (Z3); every obligation is generated from the source extracted on this run' % vrun.version(),
            'units': [{'unit': u.unit, 'modules_verified': u.mods, 'verus_functions_verified': u.res.get('verified'), 'verus_errors': u.res.get('errors'),
                       'smt_time_ms': u.res.get('smt_ms'), 'verus_total_ms': u.res.get('total_ms'), 'verus_cache': u.res.get('cache'),
                       'canaries_injected': len(u.canaries), 'canaries_failed_as_required': len(u.canaries_failed),
                       'slowest_functions_ms': sorted(((k.split('::', 1)[-1], v['ms']) for k, v in u.res.get('func_times', {}).items()), key=lambda x: -x[1])[:5],
                       'extraction': {'rules_applied': u.gen.rules_used, 'dropped': u.gen.dropped}} for u in runs],
            'functions_under_contract': fns_under_contract,
            'labelled_clauses': len([o for o in obs if not o.startswith(('safety:', 'termination:', 'proof:', 'kani:', 'bits32:'))]),
            'safety_obligations': len([o for o in obs if o.startswith('safety:')]),
            'termination_obligations': len([o for o in obs if o.startswith('termination:')]),
            'smt_time_ms': sum((u.res.get('smt_ms') or 0) for u in runs),
            'failed_obligations': [{'obligation': f['obligation'], 'function': f['fn'], 'source': f['src'], 'message': f['message']} for f in relevant],
            'known_findings_matched': [f['obligation'] for f, k in knownhits],
            'undecided': [{'message': x['message'], 'where': x.get('fn') or x.get('module')} for x in rel_undec],
            'not_covered': pcfg.get('not_covered', []),
            'bounded_stand_ins': extra.get('bounded', []),
            'replays': replay_paths,
            'thorough': extra.get('report', {}),
        },
        'assumptions': trusted,
        'wall_s': round(wall, 2),
        'violations': len(viol),
    }
    if not a.no_evidence:
        json.dump(ev, open(os.path.join(EVID, '%s.json' % prop), 'w'), indent=1)
    if rc == 0:
        print('OK property=%s obligations=%d discharged=%d verus_verified=%s smt_ms=%s wall_s=%.1f' % (
            prop, len(obs), len(discharged), '+'.join(str(u.res.get('verified')) for u in runs), ev['coverage']['smt_time_ms'], wall))
    return rc

def trusted_base(runs, props, pcfg):
    A = props.get('assumption', {})
    out = []
    for a in pcfg.get('assumes', []):
        out.append('%s: %s' % (a, A.get(a, '')))
    R = props.get('rule', {})
    used = {}
    for u in runs:
        for r, n in u.gen.rules_used.items(): used[r] = max(used.get(r, 0), n)
    for r in sorted(used):
        out.append('extraction rule %s (x%d): %s' % (r, used[r], R.get(r, '')))
    for u in runs:
        kinds = {}
        for line, k in u.gen.trusted_scan:
            kinds[k] = kinds.get(k, 0) + 1
        out.append('mechanical scan of generated unit %s: ' % u.unit + ', '.join('%s x%d' % (k.strip('( '), v) for k, v in sorted(kinds.items())))
        # name every function left unverified or given an assumed specification (the text that follows the marker)
        lines = u.gen.text.split('\n')
        names = []
        for line, k in u.gen.trusted_scan:
            if k not in ('external_body', 'assume_specification'): continue
            txt = ' '.join(x.strip() for x in lines[line - 1:line + 2])
            if k == 'assume_specification':
                i0 = txt.find('assume_specification'); i1 = txt.find('[', i0)
                # generics `<'a, T, const N: usize>` may precede the bracket; the target itself may contain brackets
                if i0 >= 0 and i1 >= 0:
                    depth = 0; j = i1
                    while j < len(txt):
                        if txt[j] == '[': depth += 1
                        elif txt[j] == ']':
                            depth -= 1
                            if depth == 0: break
                        j += 1
                    names.append('assumed specification: ' + re.sub(r'\s+', ' ', txt[i1 + 1:j]).strip())
            else:
                m = re.search(r'external_body\]\s*(?:/\*@e\*/)?\s*(?:pub(?:\([a-z]+\))?\s+)?(?:broadcast\s+)?(?:proof\s+|exec\s+)?(?:fn|struct)\s+([A-Za-z0-9_]+)', txt)
                if m: names.append('not verified (external_body): ' + m.group(1))
        for n_ in sorted(set(names)): out.append('unit %s: %s' % (u.unit, n_))
    return out

if __name__ == '__main__':
    sys.exit(main())
