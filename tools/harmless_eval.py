#!/usr/bin/env python3
"""harmless_eval -- confirm an independently written BEHAVIOUR-PRESERVING refactor and run every check against it.
usage: harmless_eval.py --id H02 --src /tmp/wt/H02/deliver [--props C04,C01]   (default: all claimed properties)
 1. fresh scratch worktree of /repo HEAD + patch: the suite result must be the baseline (239 passed; 2 failed) and the
    author's differential test (equiv.rs), if any, must pass with and without the patch;
 2. ./check <prop> with VERIF_REPO pointing at the patched scratch tree, for every property (4 at a time);
    exit 0 (held) or exit 2 (undecided, reason recorded) are acceptable, exit 1 is a FALSE ALARM;
 3. copies patch.diff, equiv.rs, meta.json (+ verdicts) to /verif/harmless/<id>/.
The scratch worktree and its build output are removed at the end."""
import os, sys, json, shutil, subprocess, argparse, tempfile, re, time
from concurrent.futures import ThreadPoolExecutor
ROOT = os.path.dirname(os.path.dirname(os.path.abspath(__file__)))
ap = argparse.ArgumentParser()
ap.add_argument('--id', required=True); ap.add_argument('--src', required=True); ap.add_argument('--props', default='')
a = ap.parse_args()
man = json.load(open(os.path.join(ROOT, 'MANIFEST.json')))
allprops = [c['property_id'] if 'property_id' in c else c['id'] for c in man['checks']]
props = [p for p in a.props.split(',') if p] or allprops
wt = tempfile.mkdtemp(prefix='harmless_'); os.rmdir(wt)
def sh(cmd, cwd=None, env=None, timeout=3600):
    p = subprocess.run(cmd, shell=True, cwd=cwd, env=env, capture_output=True, text=True, timeout=timeout)
    return p.returncode, p.stdout + p.stderr
log = {}
try:
    rc, out = sh('git -C /repo worktree add --detach %s HEAD' % wt); assert rc == 0, out
    env = dict(os.environ, CARGO_TARGET_DIR=os.path.join(wt, 'target'))
    eq = os.path.join(a.src, 'equiv.rs')
    if os.path.exists(eq):
        os.makedirs(os.path.join(wt, 'tests'), exist_ok=True)
        shutil.copy(eq, os.path.join(wt, 'tests', 'equiv_%s.rs' % a.id))
        rc, out = sh('cargo test --offline --test equiv_%s 2>&1 | grep "test result"' % a.id, cwd=wt, env=env)
        log['equiv_without_patch'] = out.strip()
    rc, out = sh('git apply %s' % os.path.join(a.src, 'patch.diff'), cwd=wt); assert rc == 0, 'patch does not apply: ' + out
    if os.path.exists(eq):
        rc, out = sh('cargo test --offline --test equiv_%s 2>&1 | grep "test result"' % a.id, cwd=wt, env=env)
        log['equiv_with_patch'] = out.strip()
        os.remove(os.path.join(wt, 'tests', 'equiv_%s.rs' % a.id))
    rc, out = sh('cargo test --offline 2>&1 | grep "test result" | head -1', cwd=wt, env=env)
    log['suite_with_patch'] = out.strip()
    log['confirmed'] = ('239 passed; 2 failed' in log['suite_with_patch'] and
                        (not os.path.exists(eq) or (' 0 failed' in log.get('equiv_with_patch', '') and ' 0 failed' in log.get('equiv_without_patch', ''))))
    def one(prop):
        t0 = time.time()
        p = subprocess.run([os.path.join(ROOT, 'check'), prop, '--no-evidence'], capture_output=True, text=True,
                           env=dict(os.environ, VERIF_REPO=wt, VERIF_NO_REPLAY_SEARCH='1'))
        lines = [l for l in p.stdout.splitlines() if l.startswith(('VIOLATION', 'OK', 'UNDECIDED', 'KNOWN'))]
        return prop, {'exit': p.returncode, 'lines': [re.sub(r'replay=\S+', 'replay=…', l)[:300] for l in lines[:3]], 'wall_s': round(time.time() - t0, 1)}
    with ThreadPoolExecutor(max_workers=4) as tp:
        verdicts = dict(tp.map(one, props))
    log['checks'] = verdicts
    log['false_alarms'] = sorted(p for p, v in verdicts.items() if v['exit'] == 1)
    log['undecided'] = sorted(p for p, v in verdicts.items() if v['exit'] == 2)
    dst = os.path.join(ROOT, 'harmless', a.id)
    os.makedirs(dst, exist_ok=True)
    shutil.copy(os.path.join(a.src, 'patch.diff'), dst)
    if os.path.exists(eq): shutil.copy(eq, dst)
    try: meta = json.load(open(os.path.join(a.src, 'meta.json')))
    except Exception as e: meta = {'note': 'agent meta.json unreadable: %s' % e}
    json.dump({'id': a.id, 'author': 'independent sub-agent (saw only the property text and a scratch worktree)', 'agent_meta': meta, 'evaluated': log},
              open(os.path.join(dst, 'meta.json'), 'w'), indent=1)
    print(a.id, 'confirmed' if log['confirmed'] else 'NOT-CONFIRMED', 'false alarms:', log['false_alarms'], 'undecided:', log['undecided'])
finally:
    sh('git -C /repo worktree remove --force %s' % wt)
    shutil.rmtree(wt, ignore_errors=True)
