#!/usr/bin/env python3
"""regenerate MANIFEST.json from spec/properties.toml (claimed checks + not_applicable)"""
import os, json, tomllib, subprocess
ROOT = os.path.dirname(os.path.dirname(os.path.abspath(__file__)))
P = tomllib.load(open(os.path.join(ROOT, 'spec', 'properties.toml'), 'rb'))
checks = []
for pid in sorted(P.get('property', {})):
    c = P['property'][pid]
    checks.append({
        'property_id': pid,
        'quick_cmd': './check %s --tier quick' % pid,
        'thorough_cmd': './check %s --tier thorough' % pid,
        'evidence_file': '/verif/evidence/%s.json' % pid,
        'replay_cmd_template': './check %s --replay {path}' % pid,
        'engine': 'verus-contracts',
        'level_claimed': {'category': c.get('level', 'proof'), 'text': c.get('level_text', ''), 'design_ref': c.get('design_ref', 'DESIGN.md section 6 (%s)' % pid)},
        'level_note': c.get('level_note', ''),
        'technique': c.get('technique', 'contract-based deductive verification (Verus) of the real functions, extracted mechanically on every run'),
    })
na = [{'property_id': k, 'reason': v} for k, v in sorted(P.get('not_applicable', {}).items())]
src_commits = []
m = {
    'version': 1,
    'setup_cmd': 'true',
    'hooks': {
        'guard': 'cole14_rust_elf_verif',
        'enable': 'no hooks are needed: Verus works on text extracted from /repo/src on every run; nothing in /repo is built with a guard',
        'baseline_off_cmd': 'cd /repo && cargo test --workspace --no-fail-fast --offline',
        'source_commits': src_commits,
        'add_only': True,
    },
    'engines': [{'name': 'verus-contracts', 'path': '/verif/check', 'serves_properties': [c['property_id'] for c in checks],
                 'kind_free_text': 'tools/extract.py assembles one Verus input from the current /repo/src (rules D1-D3, R1-R15, G1-G4 of DESIGN.md section 3), splices the contracts of spec/*.toml, runs verus, maps each failed obligation to its labelled clause / function. An OK is only ever Verus having discharged every obligation. Search for a failing input (bounded, never counted as proved): the property\'s native executable oracles (kani/replay_src, fixed-seed structured families, built against the current tree) run in the quick tier, and after a rejection (or for a function Verus cannot decide) the paired native family / bounded Kani harness is searched; an input that fails when replayed on the real crate is reported as a violation'}],
    'checks': checks,
    'not_applicable': na,
    'notes': P.get('notes', ''),
}
json.dump(m, open(os.path.join(ROOT, 'MANIFEST.json'), 'w'), indent=1)
print('MANIFEST.json: %d checks, %d not_applicable' % (len(checks), len(na)))
