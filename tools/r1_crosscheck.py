#!/usr/bin/env python3
"""r1_crosscheck -- compare the extractor's expansion of `safe_from!` (rule R1, followed by R2 and the SIZE folding) with
rustc's own expansion (`cargo +nightly rustc -- -Zunpretty=expanded`) of the CURRENT tree, token for token, for the six
EndianParse::parse_*_at default methods.  The only differences allowed are the documented ones:
  * `const SIZE: usize = core::mem::size_of::<T>();` is dropped and SIZE is replaced by the literal width of T;
  * `<T>::from_{le,be}_bytes(buf)` is routed through `crate::vp::shim_T_from_{le,be}_bytes(buf)` (R2).
Result: {'status': 'match'|'mismatch'|'unavailable', ...}.  A mismatch makes the thorough tier UNDECIDED (the verified
text may not be the code that runs), never a violation."""
import os, sys, re, json, subprocess, tempfile, shutil
sys.path.insert(0, os.path.dirname(os.path.abspath(__file__)))
import rsx
from extract import Extractor
ROOT = os.path.dirname(os.path.dirname(os.path.abspath(__file__)))
REPO = os.environ.get('VERIF_REPO', '/repo')
WIDTH = {'u8': 1, 'u16': 2, 'u32': 4, 'u64': 8, 'i32': 4, 'i64': 8}

def sig_tokens(text):
    return [t.text for t in rsx.tokenize(text) if t.kind not in ('ws', 'comment')]

def body_of(text, fn):
    """token list of the body block of `fn NAME(` inside `trait EndianParse` (first occurrence with a body)"""
    m = re.search(r'fn\s+%s\s*\(' % fn, text)
    if not m: return None
    toks = rsx.tokenize(text[m.start():])
    k = 0; depth = 0
    while k < len(toks):
        t = toks[k]
        if t.kind == 'punct' and t.text == '{' and depth == 0: break
        if t.kind == 'punct' and t.text in '([': depth += 1
        elif t.kind == 'punct' and t.text in ')]': depth -= 1
        elif t.kind == 'punct' and t.text == ';' and depth == 0: return None
        k += 1
    e = rsx.match_close(toks, k)
    return [t.text for t in toks[k:e + 1] if t.kind not in ('ws', 'comment')]

def strip_ghost(text):
    return re.sub(r'/\*@g\*/.*?/\*@e\*/', '', text, flags=re.S)

def normalise_rustc(toks, ty):
    s = ' '.join(toks)
    s = s.replace('const SIZE : usize = core :: mem :: size_of :: < %s > ( ) ;' % ty, '')
    s = re.sub(r'(?<![A-Za-z0-9_])SIZE(?![A-Za-z0-9_])', '%dusize' % WIDTH[ty], s)     # the extractor folds SIZE to a typed literal
    for o in ('le', 'be'):
        s = s.replace('< %s > :: from_%s_bytes (' % (ty, o), 'crate :: vp :: shim_%s_from_%s_bytes (' % (ty, o))
    return s.split()

def run():
    tmp = tempfile.mkdtemp(prefix='verif_r1_')
    try:
        shutil.copytree(REPO, os.path.join(tmp, 'elf'), ignore=shutil.ignore_patterns('target', '.git', 'fuzz', 'sample-objects', 'tests'))
        p = subprocess.run(['cargo', '+nightly', 'rustc', '--offline', '--lib', '--', '-Zunpretty=expanded'], cwd=os.path.join(tmp, 'elf'),
                           env=dict(os.environ, CARGO_TARGET_DIR=os.path.join(tmp, 'target'), CARGO_NET_OFFLINE='true'), capture_output=True, text=True, timeout=900)
        if p.returncode != 0 or 'parse_u16_at' not in p.stdout:
            return {'status': 'unavailable', 'detail': (p.stderr or '')[-400:]}
        expanded = p.stdout
        gen = strip_ghost(Extractor(REPO, os.path.join(ROOT, 'spec'), 'core').build().text)
        out = {}
        for ty in WIDTH:
            fn = 'parse_%s_at' % ty
            a = body_of(expanded, fn); b = body_of(gen, fn)
            if a is None or b is None:
                out[fn] = 'not-found'; continue
            a = normalise_rustc(a, ty)
            # rustc wraps the macro's block in the method's block exactly like the source does; compare directly
            out[fn] = 'match' if a == b else {'rustc': ' '.join(a)[:600], 'extractor': ' '.join(b)[:600]}
        ok = all(v == 'match' for v in out.values())
        return {'status': 'match' if ok else 'mismatch', 'functions': out, 'cmd': 'cargo +nightly rustc --offline --lib -- -Zunpretty=expanded'}
    finally:
        shutil.rmtree(tmp, ignore_errors=True)

if __name__ == '__main__':
    print(json.dumps(run(), indent=1))
