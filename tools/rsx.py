"""rsx -- a small, lossless Rust tokenizer and item splitter.

Only what the extractor needs: tokens that concatenate back to the exact source text, brace
matching, a split of a module into items (with attributes), of impl/trait bodies into member
items, of a fn into signature/return type/body, and the loops of a body in source order.
Nothing here interprets Rust semantics.
"""
import re
from dataclasses import dataclass, field

class RsxError(Exception):
    pass

@dataclass
class Tok:
    kind: str   # ws, comment, ident, lifetime, lit, punct
    text: str
    pos: int

_PUNCT3 = ['<<=', '>>=', '...', '..=']
_PUNCT2 = ['::', '->', '=>', '==', '!=', '<=', '>=', '&&', '||', '+=', '-=', '*=', '/=', '%=', '^=',
           '&=', '|=', '<<', '>>', '..']

_ident_re = re.compile(r'[A-Za-z_][A-Za-z0-9_]*')
_num_re = re.compile(r'(0x[0-9a-fA-F_]+|0o[0-7_]+|0b[01_]+|[0-9][0-9_]*(\.[0-9][0-9_]*)?([eE][+-]?[0-9_]+)?)([iu](8|16|32|64|128|size)|f32|f64)?')

def tokenize(src):
    toks = []
    i, n = 0, len(src)
    while i < n:
        c = src[i]
        if c.isspace():
            j = i
            while j < n and src[j].isspace():
                j += 1
            toks.append(Tok('ws', src[i:j], i)); i = j; continue
        if src.startswith('//', i):
            j = src.find('\n', i)
            if j < 0: j = n
            toks.append(Tok('comment', src[i:j], i)); i = j; continue
        if src.startswith('/*', i):
            depth, j = 1, i + 2
            while j < n and depth:
                if src.startswith('/*', j): depth += 1; j += 2
                elif src.startswith('*/', j): depth -= 1; j += 2
                else: j += 1
            toks.append(Tok('comment', src[i:j], i)); i = j; continue
        # raw strings / byte strings
        m = re.match(r'(b|c)?r(#*)"', src[i:i + 40])
        if m:
            hashes = m.group(2)
            endm = '"' + hashes
            j = src.find(endm, i + m.end())
            if j < 0: raise RsxError('unterminated raw string at %d' % i)
            j += len(endm)
            toks.append(Tok('lit', src[i:j], i)); i = j; continue
        if c == '"' or (c in 'bc' and i + 1 < n and src[i + 1] == '"'):
            j = i + (2 if c in 'bc' else 1)
            while j < n and src[j] != '"':
                if src[j] == '\\': j += 1
                j += 1
            j += 1
            toks.append(Tok('lit', src[i:j], i)); i = j; continue
        if c == "'" or (c == 'b' and i + 1 < n and src[i + 1] == "'"):
            k = i + (1 if c == 'b' else 0)
            # char literal or lifetime
            m = re.match(r"'(\\(x[0-9a-fA-F]{2}|u\{[0-9a-fA-F_]+\}|.)|[^\\'])'", src[k:k + 16])
            if m:
                j = k + m.end()
                toks.append(Tok('lit', src[i:j], i)); i = j; continue
            m = re.match(r"'[A-Za-z_][A-Za-z0-9_]*", src[k:])
            if m and c == "'":
                j = k + m.end()
                toks.append(Tok('lifetime', src[i:j], i)); i = j; continue
            raise RsxError('bad quote at %d' % i)
        m = _ident_re.match(src, i)
        if m:
            toks.append(Tok('ident', m.group(0), i)); i = m.end(); continue
        m = _num_re.match(src, i)
        if m and c.isdigit():
            # do not swallow `0..n` as a float
            t = m.group(0)
            if '.' in t and src.startswith('..', i + t.index('.')):
                t = t[:t.index('.')]
            toks.append(Tok('lit', t, i)); i += len(t); continue
        for p in _PUNCT3:
            if src.startswith(p, i):
                toks.append(Tok('punct', p, i)); i += 3; break
        else:
            for p in _PUNCT2:
                if src.startswith(p, i):
                    toks.append(Tok('punct', p, i)); i += 2; break
            else:
                toks.append(Tok('punct', c, i)); i += 1
    return toks

def sig(toks):
    """indices of significant (non-trivia) tokens"""
    return [k for k, t in enumerate(toks) if t.kind not in ('ws', 'comment')]

def code_text(toks):
    """canonical text of the significant tokens (single-space separated)"""
    return ' '.join(t.text for t in toks if t.kind not in ('ws', 'comment'))

def norm(s):
    """canonical text of a source fragment"""
    return code_text(tokenize(s))

OPEN = {'(': ')', '[': ']', '{': '}'}
CLOSE = {')': '(', ']': '[', '}': '{'}

def match_close(toks, k):
    """toks[k] is an opening bracket; return index of its closing bracket"""
    depth = 0
    for j in range(k, len(toks)):
        t = toks[j]
        if t.kind != 'punct': continue
        if t.text in OPEN: depth += 1
        elif t.text in CLOSE:
            depth -= 1
            if depth == 0: return j
    raise RsxError('unbalanced bracket at token %d (%r)' % (k, toks[k].text))

@dataclass
class Item:
    kind: str            # fn, struct, enum, trait, impl, const, static, type, use, mod, macro_rules, extern_crate, other
    name: str            # fn name / type name / normalised impl header
    attrs: list          # attribute texts, e.g. '#[cfg(test)]'
    start: int           # token index of first token (incl. attrs and leading doc comments)
    head: int            # token index of the keyword-bearing first token after attrs/visibility
    end: int             # token index one past the last token
    body_open: int = -1  # token index of '{' of the body (fn/trait/impl/mod), -1 if none
    body_close: int = -1
    children: list = field(default_factory=list)
    header: str = ''     # canonical header text (up to body)

_VIS = ('pub',)
_ITEM_KW = ('fn', 'struct', 'enum', 'union', 'trait', 'impl', 'const', 'static', 'type', 'use', 'mod', 'macro_rules', 'extern')

def _skip_trivia(toks, k, end):
    while k < end and toks[k].kind in ('ws', 'comment'):
        k += 1
    return k

def split_items(toks, lo, hi):
    """split toks[lo:hi] (the inside of a module / impl / trait body) into items"""
    items = []
    k = lo
    while True:
        k = _skip_trivia(toks, k, hi)
        if k >= hi: break
        start = k
        # include directly preceding doc comments in the item (they are trivia; harmless)
        attrs = []
        while k < hi and toks[k].text == '#':
            j = _skip_trivia(toks, k + 1, hi)
            if toks[j].text == '!':
                j = _skip_trivia(toks, j + 1, hi)
            if toks[j].text != '[': raise RsxError('bad attribute at %d' % toks[k].pos)
            e = match_close(toks, j)
            attrs.append(''.join(t.text for t in toks[k:e + 1]))
            k = _skip_trivia(toks, e + 1, hi)
        # visibility
        if k < hi and toks[k].text == 'pub':
            j = _skip_trivia(toks, k + 1, hi)
            if toks[j].text == '(':
                j = _skip_trivia(toks, match_close(toks, j) + 1, hi)
            k = j
        head = k
        # qualifiers
        q = k
        while q < hi and toks[q].text in ('default', 'unsafe', 'async'):
            q = _skip_trivia(toks, q + 1, hi)
        if q < hi and toks[q].text == 'const':
            j = _skip_trivia(toks, q + 1, hi)
            if toks[j].text in ('fn', 'unsafe', 'async'):
                q = j
        if q < hi and toks[q].text == 'extern':
            j = _skip_trivia(toks, q + 1, hi)
            if toks[j].kind == 'lit':
                j = _skip_trivia(toks, j + 1, hi)
            if toks[j].text == 'fn': q = j
        kw = toks[q].text if q < hi else ''
        if kw not in _ITEM_KW:
            # a macro invocation item like foo!{...} or foo!(...);  or unknown: take to ';' or balanced brace
            kw = 'other'
        # find the end
        depth = 0
        j = q
        body_open = body_close = -1
        end = None
        brace_terminated = kw in ('fn', 'trait', 'impl', 'enum', 'union', 'mod', 'macro_rules', 'struct', 'other')
        while j < hi:
            t = toks[j]
            if t.kind == 'punct':
                if t.text in OPEN:
                    if t.text == '{' and depth == 0 and brace_terminated:
                        body_open = j
                        body_close = match_close(toks, j)
                        end = body_close + 1
                        if kw in ('macro_rules', 'other'):
                            # optional trailing ';'
                            jj = _skip_trivia(toks, end, hi)
                            if jj < hi and toks[jj].text == ';': end = jj + 1
                        break
                    depth += 1
                elif t.text in CLOSE:
                    depth -= 1
                elif t.text == ';' and depth == 0:
                    end = j + 1
                    break
            j += 1
        if end is None:
            raise RsxError('unterminated item at pos %d' % toks[start].pos)
        name = ''
        header_end = body_open if body_open >= 0 else end - 1
        header = code_text(toks[head:header_end])
        if kw in ('fn', 'struct', 'enum', 'union', 'trait', 'const', 'static', 'type', 'mod'):
            j = _skip_trivia(toks, q + 1, hi)
            if kw in ('const', 'static') and toks[j].text == 'mut':
                j = _skip_trivia(toks, j + 1, hi)
            name = toks[j].text
        elif kw == 'macro_rules':
            j = _skip_trivia(toks, q + 1, hi)  # '!'
            j = _skip_trivia(toks, j + 1, hi)
            name = toks[j].text
        elif kw == 'impl':
            name = impl_key(toks, q, body_open)
        it = Item(kw, name, attrs, start, head, end, body_open, body_close, [], header)
        if kw in ('impl', 'trait') and body_open >= 0:
            it.children = split_items(toks, body_open + 1, body_close)
        if kw == 'mod' and body_open >= 0:
            it.children = split_items(toks, body_open + 1, body_close)
        items.append(it)
        k = end
    return items

def _angle_groups(ts, i):
    """ts[i] == '<'; return index one past the matching '>'"""
    depth = 0
    j = i
    while j < len(ts):
        t = ts[j]
        if t == '<': depth += 1
        elif t == '>': depth -= 1
        elif t == '>>': depth -= 2
        j += 1
        if depth <= 0: return j
    raise RsxError('unbalanced <>')

def impl_key(toks, q, body_open):
    """'impl<..> Trait<..> for Type<..> where ..' -> 'Trait for Type' ; 'impl<..> Type<..>' -> 'Type'.
    Generic argument lists made only of lifetimes and the impl's own parameters are dropped,
    others (e.g. From<core::str::Utf8Error>) are kept."""
    ts = [t.text for t in toks[q + 1:body_open] if t.kind not in ('ws', 'comment')]
    params = set()
    if ts and ts[0] == '<':
        e = _angle_groups(ts, 0)
        inner = ts[1:e - 1]
        depth = 0
        expect = True
        for t in inner:
            if t in ('<', '('): depth += 1
            elif t in ('>', ')'): depth -= 1
            elif t == '>>': depth -= 2
            elif t == ',' and depth == 0: expect = True; continue
            if expect and depth == 0 and t != 'const':
                params.add(t); expect = False
        ts = ts[e:]
    depth = 0
    for i, t in enumerate(ts):
        if t == '<': depth += 1
        elif t == '>': depth -= 1
        elif t == '>>': depth -= 2
        elif t == 'where' and depth == 0:
            ts = ts[:i]; break
    out = []
    i = 0
    while i < len(ts):
        if ts[i] == '<':
            e = _angle_groups(ts, i)
            inner = [x for x in ts[i + 1:e - 1] if x != ',']
            if all(x.startswith("'") or x in params for x in inner):
                i = e; continue
            out.extend(ts[i:e]); i = e; continue
        out.append(ts[i]); i += 1
    s = ' '.join(out)
    s = re.sub(r'\s*::\s*', '::', s)
    s = re.sub(r'\s*<\s*', '<', s); s = re.sub(r'\s*>', '>', s); s = re.sub(r'\s*,\s*', ', ', s)
    return s

@dataclass
class FnParts:
    name: str
    name_idx: int
    params_open: int
    params_close: int
    ret_start: int      # token index of first token of the return type (after '->'), or -1
    ret_end: int        # one past last token of return type
    sig_end: int        # token index where requires/ensures go: the '{' of the body or the ';'
    body_open: int
    body_close: int

def fn_parts(toks, item):
    k = item.head
    while toks[k].text != 'fn':
        k += 1
    k = _skip_trivia(toks, k + 1, item.end)
    name_idx = k
    name = toks[k].text
    k = _skip_trivia(toks, k + 1, item.end)
    if toks[k].text == '<':
        depth = 0
        while True:
            t = toks[k].text
            if t == '<': depth += 1
            elif t == '>': depth -= 1
            elif t == '>>': depth -= 2
            elif t == '->' : pass
            k += 1
            if depth <= 0: break
        k = _skip_trivia(toks, k, item.end)
    if toks[k].text != '(':
        raise RsxError('fn %s: expected ( got %r' % (name, toks[k].text))
    po = k
    pc = match_close(toks, k)
    k = _skip_trivia(toks, pc + 1, item.end)
    ret_start = ret_end = -1
    sig_end = item.body_open if item.body_open >= 0 else item.end - 1
    if toks[k].text == '->':
        ret_start = _skip_trivia(toks, k + 1, item.end)
        j = ret_start
        depth = 0
        while j < sig_end:
            t = toks[j]
            if t.kind == 'punct' and t.text in OPEN: depth += 1
            elif t.kind == 'punct' and t.text in CLOSE: depth -= 1
            elif t.text == 'where' and depth == 0: break
            j += 1
        # trim trailing trivia
        e = j
        while toks[e - 1].kind in ('ws', 'comment'): e -= 1
        ret_end = e
    return FnParts(name, name_idx, po, pc, ret_start, ret_end, sig_end, item.body_open, item.body_close)

@dataclass
class Loop:
    kw: str        # for / while / loop
    kw_idx: int
    body_open: int
    body_close: int
    label_idx: int = -1   # token idx of a `'label` preceding the keyword (with ':'), or -1

def find_loops(toks, lo, hi):
    """loops in toks[lo:hi] in source (pre-)order"""
    loops = []
    k = lo
    prev_sig = None
    while k < hi:
        t = toks[k]
        if t.kind in ('ws', 'comment'):
            k += 1; continue
        if t.kind == 'ident' and t.text in ('for', 'while', 'loop'):
            # `for<'a>` HRTB and `impl X for Y` do not occur inside fn bodies of this crate; guard anyway
            j = _skip_trivia(toks, k + 1, hi)
            if t.text == 'for' and toks[j].text == '<':
                prev_sig = k; k += 1; continue
            depth = 0
            b = j
            while b < hi:
                tt = toks[b]
                if tt.kind == 'punct':
                    if tt.text == '{' and depth == 0: break
                    if tt.text in OPEN: depth += 1
                    elif tt.text in CLOSE: depth -= 1
                b += 1
            if b >= hi: raise RsxError('loop without body')
            lab = -1
            if prev_sig is not None and toks[prev_sig].text == ':':
                p2 = prev_sig - 1
                while p2 >= lo and toks[p2].kind in ('ws', 'comment'): p2 -= 1
                if toks[p2].kind == 'lifetime': lab = p2
            loops.append(Loop(t.text, k, b, match_close(toks, b), lab))
        prev_sig = k
        k += 1
    return loops

def text_of(toks, lo, hi):
    return ''.join(t.text for t in toks[lo:hi])
