#!/usr/bin/env python3
"""abi_reference -- build spec/abi_reference.json: NAME -> value for every integer constant that the two
reference tables on this image define CONSISTENTLY:
   glibc  /usr/include/elf.h                      (#define NAME value)
   LLVM   /usr/include/llvm-14/llvm/BinaryFormat/ELF.h (enum { NAME = value }) and ELFRelocs/*.def (ELF_RELOC(NAME, value))
A name defined by only one of them is kept with that value (source recorded); a name on which they
disagree is excluded and listed under "excluded".  The JSON is committed; checks never read the headers.
Also emits the C struct layouts of elf.h (field offsets/sizes computed from the typedef widths) for the
cross-check of spec/abi_layout.toml.
"""
import re, json, os, sys, glob
ELF_H = '/usr/include/elf.h'
LLVM = '/usr/include/llvm-14/llvm/BinaryFormat'

def ceval(expr, env):
    e = expr.strip()
    e = re.sub(r'/\*.*?\*/', '', e).strip()
    e = re.sub(r'\b(0[xX][0-9a-fA-F]+|\d+)[uUlL]*\b', r'\1', e)
    e = re.sub(r'\(\s*(unsigned|int|long|Elf\w+|uint\w+)\s*\)', '', e)
    toks = re.findall(r'[A-Za-z_]\w*', e)
    for t in toks:
        if t in env: e = re.sub(r'\b%s\b' % t, str(env[t]), e)
        else: return None
    if not re.fullmatch(r'[0-9a-fA-FxX\s()+\-*/|&<>~]+', e): return None
    try:
        return int(eval(e, {'__builtins__': {}}))
    except Exception:
        return None

def glibc():
    out = {}
    src = open(ELF_H, errors='replace').read()
    for m in re.finditer(r'^#\s*define\s+([A-Z][A-Za-z0-9_]*)\s+(.+?)\s*(?:/\*.*)?$', src, re.M):
        name, expr = m.group(1), m.group(2)
        if '(' in name: continue
        v = ceval(expr, out)
        if v is not None: out[name] = v
    return out

def llvm():
    out = {}
    src = open(os.path.join(LLVM, 'ELF.h'), errors='replace').read()
    src = re.sub(r'//.*', '', src)
    for m in re.finditer(r'\b([A-Z][A-Za-z0-9_]*)\s*=\s*([^,}\n]+)[,}\n]', src):
        name, expr = m.group(1), m.group(2)
        v = ceval(expr, out)
        if v is not None and name not in out: out[name] = v
    for f in sorted(glob.glob(os.path.join(LLVM, 'ELFRelocs', '*.def'))):
        for m in re.finditer(r'ELF_RELOC\(\s*(\w+)\s*,\s*(0[xX][0-9a-fA-F]+|\d+)\s*\)', open(f).read()):
            out.setdefault(m.group(1), int(m.group(2), 0))
    return out

def c_layouts():
    """Elf32_Shdr etc.: [(field, offset, size)] from the typedef struct text of elf.h"""
    src = open(ELF_H, errors='replace').read()
    src = re.sub(r'/\*.*?\*/', '', src, flags=re.S)
    width = {'Elf32_Half': 2, 'Elf64_Half': 2, 'Elf32_Word': 4, 'Elf64_Word': 4, 'Elf32_Sword': 4, 'Elf64_Sword': 4,
             'Elf32_Xword': 8, 'Elf64_Xword': 8, 'Elf32_Sxword': 8, 'Elf64_Sxword': 8, 'Elf32_Addr': 4, 'Elf64_Addr': 8,
             'Elf32_Off': 4, 'Elf64_Off': 8, 'Elf32_Section': 2, 'Elf64_Section': 2, 'Elf32_Versym': 2, 'Elf64_Versym': 2,
             'unsigned char': 1}
    signed = {'Elf32_Sword', 'Elf64_Sword', 'Elf32_Sxword', 'Elf64_Sxword'}
    out = {}
    for m in re.finditer(r'typedef struct\s*\{(.*?)\}\s*(Elf(?:32|64)_\w+)\s*;', src, re.S):
        body, name = m.group(1), m.group(2)
        off = 0
        fields = []
        ok = True
        # flatten unions: take the first member (same width for all members in elf.h)
        body = re.sub(r'union\s*\{\s*([^;]+;)[^}]*\}\s*(\w+)\s*;', lambda mm: re.sub(r'(\w+)\s*;', mm.group(2) + ';', mm.group(1)), body)
        for fm in re.finditer(r'((?:unsigned\s+)?\w+)\s+(\w+)\s*(\[(\w+)\])?\s*;', body):
            ty, fname, arr = fm.group(1), fm.group(2), fm.group(4)
            if ty not in width: ok = False; break
            w = width[ty]
            n = 16 if arr == 'EI_NIDENT' else (int(arr) if arr and arr.isdigit() else 1)
            off = (off + w - 1) // w * w
            fields.append([fname, off, w * n, 's' if ty in signed else 'u'])
            off += w * n
        if ok:
            al = max(f[2] if f[2] in (1, 2, 4, 8) else 1 for f in fields)
            out[name] = {'fields': fields, 'size': (off + al - 1) // al * al}
    return out

if __name__ == '__main__':
    g, l = glibc(), llvm()
    ref, excluded = {}, {}
    for n in sorted(set(g) | set(l)):
        if n in g and n in l:
            if g[n] == l[n]: ref[n] = {'value': g[n], 'src': 'glibc+llvm'}
            else: excluded[n] = {'glibc': g[n], 'llvm': l[n]}
        elif n in g: ref[n] = {'value': g[n], 'src': 'glibc'}
        else: ref[n] = {'value': l[n], 'src': 'llvm'}
    out = {'_generated_by': 'tools/abi_reference.py from /usr/include/elf.h and /usr/include/llvm-14/llvm/BinaryFormat', 'constants': ref, 'excluded_disagreeing': excluded, 'c_layouts': c_layouts()}
    p = os.path.join(os.path.dirname(os.path.dirname(os.path.abspath(__file__))), 'spec', 'abi_reference.json')
    json.dump(out, open(p, 'w'), indent=0, sort_keys=True)
    print('reference constants: %d (both: %d), excluded (disagree): %d, c layouts: %d' % (len(ref), sum(1 for v in ref.values() if v['src'] == 'glibc+llvm'), len(excluded), len(out['c_layouts'])))
