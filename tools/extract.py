"""extract -- assemble one Verus input file from the *current* working tree of the repository.

Pipeline (DESIGN.md sections 2 and 3):
  D-rules  drop items that are not code under verification (tests, Display, cfg-disabled items)
  R-rules  purely syntactic rewrites forced by the Verus front end (macro expansion, shims, for->loop)
  splice   insert contract text from spec/*.toml; every inserted span is bracketed /*@g*/ ... /*@e*/
  check    stripping the bracketed spans gives back exactly the R-phase token stream (self-check)

Nothing in this file knows what any function of the repository is supposed to do; all contract text
lives in spec/.  A spec anchor that does not resolve is an ExtractError (reported as exit 2 by ./check).
"""
import os, re, sys, json, tomllib
from dataclasses import dataclass, field
import rsx
from rsx import Tok, tokenize, code_text, split_items, fn_parts, find_loops, match_close, RsxError

G_OPEN, G_CLOSE = '/*@g*/', '/*@e*/'

class ExtractError(Exception):
    """lost anchor / unsupported construct / malformed spec: undecided, never an alarm"""

INT_SIZES = {'u8': 1, 'u16': 2, 'u32': 4, 'u64': 8, 'i8': 1, 'i16': 2, 'i32': 4, 'i64': 8}

def g(text):
    return G_OPEN + text + G_CLOSE

# ------------------------------------------------------------------------------------------------
# cfg evaluation (D1, D3)

def eval_cfg(expr_toks, features, test=False, target_endian='little'):
    """expr_toks: significant token texts of the inside of cfg(...)"""
    pos = [0]
    def peek(): return expr_toks[pos[0]] if pos[0] < len(expr_toks) else None
    def eat(x=None):
        t = peek()
        if x is not None and t != x: raise ExtractError('cfg parse: expected %r got %r' % (x, t))
        pos[0] += 1
        return t
    def parse():
        t = eat()
        if t in ('all', 'any', 'not'):
            eat('(')
            vals = []
            while peek() != ')':
                vals.append(parse())
                if peek() == ',': eat(',')
            eat(')')
            if t == 'all': return all(vals)
            if t == 'any': return any(vals)
            return not vals[0]
        if t == 'test': return test
        if t == 'feature':
            eat('='); v = eat().strip('"')
            return v in features
        if t == 'target_endian':
            eat('='); v = eat().strip('"')
            return v == target_endian
        if t in ('kani', 'verus_keep_ghost', 'debug_assertions'):
            return False
        raise ExtractError('cfg parse: unknown predicate %r' % t)
    return parse()

def attr_cfg(attr_text):
    """'#[cfg(...)]' -> token texts of the predicate, else None"""
    ts = [t.text for t in tokenize(attr_text) if t.kind not in ('ws', 'comment')]
    if len(ts) >= 5 and ts[0] == '#' and ts[1] == '[' and ts[2] == 'cfg' and ts[3] == '(':
        return ts[4:-2]
    return None

# ------------------------------------------------------------------------------------------------
# spec loading

@dataclass
class Clause:
    label: str
    own: list
    dep: list
    text: str

def _clauses(lst, fnpath, kind):
    out = []
    for i, c in enumerate(lst or []):
        if isinstance(c, str):
            out.append(Clause('', [], [], c))
        else:
            out.append(Clause(c.get('label', ''), list(c.get('own', [])), list(c.get('dep', [])), c['text']))
    return out

def _subst(x, env):
    if isinstance(x, str):
        for k, v in env.items():
            x = x.replace('${%s}' % k, str(v))
        return x
    if isinstance(x, list): return [_subst(y, env) for y in x]
    if isinstance(x, dict): return {k: _subst(v, env) for k, v in x.items()}
    return x

def expand_templates(d):
    """[[template]] params=[{..},..]  fn=[{..}] impl=[{..}] : instantiate with ${NAME} substitution"""
    for t in d.get('template', []):
        for env in t['params']:
            for kind in ('fn', 'impl', 'item'):
                for x in t.get(kind, []):
                    d.setdefault(kind, []).append(_subst(x, env))
    return d

class Spec:
    def __init__(self, spec_dir):
        self.dir = spec_dir
        self.units = tomllib.load(open(os.path.join(spec_dir, 'units.toml'), 'rb'))
        self.modules = {}
        for fn in sorted(os.listdir(spec_dir)):
            if fn.endswith('.toml') and fn != 'units.toml':
                d = tomllib.load(open(os.path.join(spec_dir, fn), 'rb'))
                d = expand_templates(d)
                name = d.get('module', {}).get('name', fn[:-5])
                if name in self.modules:
                    # several spec files may contribute to one module
                    m = self.modules[name]
                    for k in ('fn', 'impl', 'item', 'drop', 'client_clause', 'auto_fn'):
                        m.setdefault(k, []).extend(d.get(k, []))
                    mt = d.get('module', {})
                    m.setdefault('module', {})
                    for k in ('top', 'bottom'):
                        if mt.get(k):
                            m['module'][k] = m['module'].get(k, '') + '\n' + mt[k]
                else:
                    self.modules[name] = d

    def module(self, name):
        return self.modules.get(name, {})

# ------------------------------------------------------------------------------------------------

@dataclass
class FnRecord:
    module: str
    path: str            # e.g. 'ParsingTable::get'
    out_start: int = 0   # char offsets in the generated text
    out_end: int = 0
    line_start: int = 0
    line_end: int = 0
    has_body: bool = True
    external: bool = False
    public: bool = False
    labels: list = field(default_factory=list)   # clause labels spliced into this fn
    requires_n: int = 0
    loops: int = 0
    src_file: str = ''
    src_line: int = 0
    rules: list = field(default_factory=list)
    lost: str = ''                                   # non-empty: spliced as external_body (anchors lost)
    lost_hints: list = field(default_factory=list)   # proof hints that could not be placed
    lost_sites: list = field(default_factory=list)   # labelled site assertions that could not be placed

@dataclass
class ConstRecord:
    module: str
    name: str
    out_start: int = 0
    out_end: int = 0
    line_start: int = 0
    line_end: int = 0
    external: str = ''      # non-empty: emitted `#[verifier::external]` (Verus' front end rejected its initialiser); reason

@dataclass
class GenResult:
    text: str
    fns: list
    clauses: dict          # label -> dict(own, dep, text, fn, kind)
    rules_used: dict       # rule id -> count
    dropped: list          # human readable list of dropped items
    modules: list
    trusted_scan: list     # occurrences of external_body / assume_specification / admit / assume
    consts: list = field(default_factory=list)       # ConstRecord per emitted const item (line ranges; `external`: left out of verification)
    lost_value_clauses: list = field(default_factory=list)   # constants whose reference-value clause could not be stated (external const)

class Extractor:
    def __init__(self, repo, spec_dir, unit, usize_bytes=8, canary=False, only_props=None, force_external=None, target_endian='little', only_ensures=None):
        self.repo = repo
        self.spec = Spec(spec_dir)
        self.unit_name = unit
        self.unit = self.spec.units['unit'][unit]
        self.features = set(self.unit.get('features', []))
        self.usize_bytes = usize_bytes
        self.target_endian = target_endian   # cfg(target_endian) is evaluated for this value (the host is little-endian)
        self.canary = canary
        self.fns = []
        self.consts = []
        self.clauses = {}
        self.rules_used = {}
        self.dropped = []
        self.macros = {}
        self.used_fn_specs = set()
        self.used_impl_specs = set()
        self.force_external = dict(force_external or {})   # (module, fn path) -> reason
        try: self.baseline = set(json.load(open(os.path.join(spec_dir, 'baseline_fns.json'))).get(unit, []))
        except Exception: self.baseline = None
        self.only_ensures = dict(only_ensures or {})       # (module, fn path) -> label: emit only this postcondition of that fn (split query)

    # ---- helpers
    def rule(self, rid, n=1):
        self.rules_used[rid] = self.rules_used.get(rid, 0) + n

    def cfg_keep(self, item):
        for a in item.attrs:
            c = attr_cfg(a)
            if c is not None:
                if not eval_cfg(c, self.features, target_endian=self.target_endian):
                    return False
        return True

    def strip_cfg_attrs(self, toks, item):
        """text of the item without its #[cfg(..)] attributes (they evaluated to true) and without
        attributes Verus does not know (#[inline], #[doc(hidden)], #[allow], #[must_use])"""
        return rsx.text_of(toks, item.start, item.end)

    def filter_cfg_elements(self, text, mod, it):
        """D3 inside an enum/struct: drop `#[cfg(..)] ELEMENT,` when the predicate is false"""
        toks = tokenize(text)
        out = []
        k = 0
        n = len(toks)
        while k < n:
            t = toks[k]
            if t.text == '#' and k + 1 < n:
                j = rsx._skip_trivia(toks, k + 1, n)
                if toks[j].text == '[':
                    e = match_close(toks, j)
                    c = attr_cfg(rsx.text_of(toks, k, e + 1))
                    if c is not None:
                        if eval_cfg(c, self.features, target_endian=self.target_endian):
                            k = e + 1; continue
                        # skip to the ',' that ends the element
                        depth = 0
                        m = e + 1
                        while m < n:
                            tt = toks[m]
                            if tt.kind == 'punct' and tt.text in rsx.OPEN: depth += 1
                            elif tt.kind == 'punct' and tt.text in rsx.CLOSE:
                                if depth == 0: break
                                depth -= 1
                            elif tt.kind == 'punct' and tt.text == ',' and depth == 0:
                                m += 1; break
                            m += 1
                        self.dropped.append('D3 %s: cfg-disabled element of %s %s' % (mod, it.kind, it.name))
                        k = m; continue
            out.append(t.text); k += 1
        return ''.join(out)

    # ---- R1: macro_rules expansion
    def register_macro(self, toks, item):
        # macro_rules! name { ( matcher ) => { body } ; }
        inner = [t for t in toks[item.body_open + 1:item.body_close] if t.kind not in ('ws', 'comment')]
        if not inner or inner[0].text != '(':
            raise ExtractError('macro %s: unsupported matcher' % item.name)
        mc = match_close(inner, 0)
        matcher = inner[1:mc]
        params = []
        k = 0
        while k < len(matcher):
            if matcher[k].text == '$':
                params.append(matcher[k + 1].text)
                k += 4  # $ name : frag
            elif matcher[k].text == ',':
                k += 1
            else:
                raise ExtractError('macro %s: unsupported matcher token %r' % (item.name, matcher[k].text))
        rest = inner[mc + 1:]
        if rest[0].text != '=>' or rest[1].text != '{':
            raise ExtractError('macro %s: unsupported arm' % item.name)
        bc = match_close(rest, 1)
        tail = [t.text for t in rest[bc + 1:]]
        if tail not in ([], [';']):
            raise ExtractError('macro %s: more than one arm' % item.name)
        body = rest[2:bc]          # tokens between the outer { }
        self.macros[item.name] = (params, body)

    def expand_macros(self, toks):
        """replace NAME!( args ) for registered macros; returns new token list (re-tokenised)"""
        changed = True
        text = ''.join(t.text for t in toks)
        guard = 0
        while changed:
            changed = False
            guard += 1
            if guard > 20: raise ExtractError('macro expansion does not terminate')
            toks = tokenize(text)
            sg = rsx.sig(toks)
            for si, k in enumerate(sg):
                t = toks[k]
                if t.kind == 'ident' and t.text in self.macros and si + 2 < len(sg) and toks[sg[si + 1]].text == '!' and toks[sg[si + 2]].text in ('(', '{', '['):
                    o = sg[si + 2]
                    c = match_close(toks, o)
                    args, cur, depth = [], [], 0
                    for a in toks[o + 1:c]:
                        if a.kind == 'punct' and a.text in rsx.OPEN: depth += 1
                        if a.kind == 'punct' and a.text in rsx.CLOSE: depth -= 1
                        if a.kind == 'punct' and a.text == ',' and depth == 0:
                            args.append(cur); cur = []
                        else:
                            cur.append(a)
                    if any(x.kind not in ('ws', 'comment') for x in cur): args.append(cur)
                    params, body = self.macros[t.text]
                    if len(args) != len(params):
                        raise ExtractError('macro %s: arity mismatch' % t.text)
                    amap = {p: ''.join(x.text for x in a).strip() for p, a in zip(params, args)}
                    out = []
                    j = 0
                    while j < len(body):
                        b = body[j]
                        if b.text == '$' and j + 1 < len(body) and body[j + 1].text in amap:
                            out.append(amap[body[j + 1].text]); j += 2
                        else:
                            out.append(b.text); j += 1
                    exp = self.fold_size_const(' '.join(out), amap)
                    text = ''.join(x.text for x in toks[:k]) + exp + ''.join(x.text for x in toks[c + 1:])
                    self.rule('R1')
                    changed = True
                    break
        return tokenize(text)

    def fold_size_const(self, text, amap):
        """R1 (second half): `const SIZE: usize = core::mem::size_of::<T>();` is removed and SIZE
        replaced by the literal size of the primitive integer type T."""
        toks = [t for t in tokenize(text) if t.kind not in ('ws', 'comment')]
        ts = [t.text for t in toks]
        pat = ['const', None, ':', 'usize', '=', 'core', '::', 'mem', '::', 'size_of', '::', '<', None, '>', '(', ')', ';']
        out = []
        k = 0
        consts = {}
        while k < len(ts):
            if ts[k] == 'const' and k + len(pat) <= len(ts) and all(p is None or p == ts[k + i] for i, p in enumerate(pat)):
                name, typ = ts[k + 1], ts[k + 12]
                if typ not in INT_SIZES:
                    raise ExtractError('R1: size_of::<%s> is not a primitive integer' % typ)
                consts[name] = '%dusize' % INT_SIZES[typ]      # typed: `SIZE.checked_add(..)` must stay a method call on usize
                k += len(pat)
                continue
            out.append(ts[k]); k += 1
        out = [consts.get(t, t) for t in out]
        return ' '.join(out)

    # ---- R2: from_{le,be}_bytes shims
    def apply_shims(self, toks):
        sg = rsx.sig(toks)
        ts = [toks[k].text for k in sg]
        edits = []  # (first_sig_idx, last_sig_idx, replacement)
        i = 0
        while i < len(ts):
            # < T > :: from_le_bytes    |   T :: from_le_bytes
            if ts[i] == '<' and i + 4 < len(ts) and ts[i + 1] in INT_SIZES and ts[i + 2] == '>' and ts[i + 3] == '::' and ts[i + 4] in ('from_le_bytes', 'from_be_bytes'):
                edits.append((i, i + 4, 'crate::vp::shim_%s_%s' % (ts[i + 1], ts[i + 4])))
                i += 5; continue
            if ts[i] in INT_SIZES and i + 2 < len(ts) and ts[i + 1] == '::' and ts[i + 2] in ('from_le_bytes', 'from_be_bytes') and (i == 0 or ts[i - 1] != '::'):
                edits.append((i, i + 2, 'crate::vp::shim_%s_%s' % (ts[i], ts[i + 2])))
                i += 3; continue
            i += 1
        if not edits: return toks
        text = []
        last = 0
        for a, b, rep in edits:
            text.append(''.join(t.text for t in toks[last:sg[a]]))
            text.append(rep)
            last = sg[b] + 1
            self.rule('R2')
        text.append(''.join(t.text for t in toks[last:]))
        return tokenize(''.join(text))

    # ---- generic find/replace rewrite on significant tokens (R5, R6, R10 instances from spec)
    def apply_rewrite(self, toks, rw, fnpath):
        find = [t.text for t in tokenize(rw['find']) if t.kind not in ('ws', 'comment')]
        sg = rsx.sig(toks)
        ts = [toks[k].text for k in sg]
        hits = [i for i in range(len(ts) - len(find) + 1) if ts[i:i + len(find)] == find]
        if len(hits) != 1:
            raise ExtractError('%s: rewrite %s: pattern %r matches %d times' % (fnpath, rw.get('rule', '?'), rw['find'], len(hits)))
        i = hits[0]
        text = ''.join(t.text for t in toks[:sg[i]]) + rw['replace'] + ''.join(t.text for t in toks[sg[i + len(find) - 1] + 1:])
        self.rule(rw.get('rule', 'R?'))
        return tokenize(text)

    # ---- R6: RECV.find(|PAT| BODY) -> first-match loop that calls the (kept) closure
    def desugar_find(self, toks, fd, fnpath):
        """the n-th `.find(` of the function (source order).  The closure BODY is kept verbatim inside a closure whose
        typed header (+ ensures) comes from the spec; the search becomes
            { let mut V = RECV; let V_p = HEADER { BODY }; let mut V_res = None;
              loop { match V.next() { Some(v_) => { if V_p(&v_) { V_res = Some(v_); break; } } None => break, } } V_res }"""
        sg = rsx.sig(toks)
        hits = [i for i in range(len(sg) - 2) if toks[sg[i]].text == '.' and toks[sg[i + 1]].text == 'find' and toks[sg[i + 2]].text == '(']
        n = fd['n']
        if n < 1 or n > len(hits):
            raise ExtractError('%s: .find( #%d does not exist (function has %d)' % (fnpath, n, len(hits)))
        i = hits[n - 1]
        open_idx = sg[i + 2]
        close_idx = match_close(toks, open_idx)
        # receiver: postfix chain to the left of `.find`
        j = i - 1
        depth = 0
        while j >= 0:
            t = toks[sg[j]]
            if t.kind == 'punct' and t.text in rsx.CLOSE: depth += 1
            elif t.kind == 'punct' and t.text in rsx.OPEN:
                if depth == 0: break
                depth -= 1
            elif depth == 0:
                if t.kind in ('ident', 'lifetime') and t.text not in ('let', 'match', 'if', 'return', 'in', 'else', 'mut'): pass
                elif t.kind == 'punct' and t.text in ('.', '::', '?'): pass
                else: break
            j -= 1
        recv_lo = sg[j + 1]
        recv = rsx.text_of(toks, recv_lo, sg[i]).strip()
        inner = [k for k in range(open_idx + 1, close_idx) if toks[k].kind not in ('ws', 'comment')]
        if not inner or toks[inner[0]].text != '|':
            raise ExtractError('%s: .find( #%d: argument is not a closure literal' % (fnpath, n))
        # closure params end at the second '|'
        k2 = None
        for k in inner[1:]:
            if toks[k].text == '|': k2 = k; break
        if k2 is None: raise ExtractError('%s: .find( #%d: malformed closure' % (fnpath, n))
        body = rsx.text_of(toks, k2 + 1, close_idx).strip()
        if not body.startswith('{'): body = '{ ' + body + ' }'
        v = fd.get('var', 'fit%d' % n)
        rty = (': ' + fd['res_type']) if fd.get('res_type') else ''
        new = ('{ let mut %s = %s; let %s_p = %s %s; let mut %s_res%s = None; '
               'loop { match %s.next() { Some(v_) => { if %s_p(&v_) { %s_res = Some(v_); break; } } None => break, } } %s_res }'
               % (v, recv, v, fd['closure_header'], body, v, rty, v, v, v, v))
        text = rsx.text_of(toks, 0, recv_lo) + new + rsx.text_of(toks, close_idx + 1, len(toks))
        self.rule('R6')
        return tokenize(text)

    # ---- R12: RECV.collect() into a Vec -> push loop
    def desugar_collect(self, toks, cd, fnpath):
        """the n-th `.collect()` of the function: { let mut V = RECV; let mut V_vec = Vec::new();
              loop { match V.next() { Some(v_) => { V_vec.push(v_); } None => break, } } V_vec }
        (what FromIterator for Vec does: push the items in order)"""
        sg = rsx.sig(toks)
        hits = [i for i in range(len(sg) - 3) if toks[sg[i]].text == '.' and toks[sg[i + 1]].text == 'collect' and toks[sg[i + 2]].text == '(' and toks[sg[i + 3]].text == ')']
        n = cd['n']
        if n < 1 or n > len(hits):
            raise ExtractError('%s: .collect() #%d does not exist (function has %d)' % (fnpath, n, len(hits)))
        i = hits[n - 1]
        j = i - 1
        depth = 0
        while j >= 0:
            t = toks[sg[j]]
            if t.kind == 'punct' and t.text in rsx.CLOSE: depth += 1
            elif t.kind == 'punct' and t.text in rsx.OPEN:
                if depth == 0: break
                depth -= 1
            elif depth == 0:
                if t.kind in ('ident', 'lifetime') and t.text not in ('let', 'match', 'if', 'return', 'in', 'else', 'mut'): pass
                elif t.kind == 'punct' and t.text in ('.', '::', '?'): pass
                else: break
            j -= 1
        recv_lo = sg[j + 1]
        recv = rsx.text_of(toks, recv_lo, sg[i]).strip()
        v = cd.get('var', 'cit%d' % n)
        ty = cd.get('elem')
        new = ('{ let mut %s = %s; let mut %s_vec%s = Vec::new(); loop { match %s.next() { Some(v_) => { %s_vec.push(v_); } None => break, } } %s_vec }'
               % (v, recv, v, (': Vec<%s>' % ty) if ty else '', v, v, v))
        text = rsx.text_of(toks, 0, recv_lo) + new + rsx.text_of(toks, sg[i + 3] + 1, len(toks))
        self.rule('R12')
        return tokenize(text)

    # ---- R4: for -> loop/match
    def desugar_for(self, toks, body_lo, body_hi, loop_specs, fnpath):
        """rewrite the `for` loops named in loop_specs (n -> spec with 'desugar').  Returns new tokens.
        Loops are numbered in source order; the rewrite keeps that order."""
        todo = sorted([ls for ls in loop_specs if ls.get('desugar')], key=lambda ls: -ls['n'])
        for ls in todo:   # innermost/last first so earlier indices stay valid
            it = rsx.Item('fn', '', [], 0, 0, len(toks))
            loops = find_loops(toks, body_lo, body_hi)
            n = ls['n']
            if n < 1 or n > len(loops):
                raise ExtractError('%s: loop #%d does not exist (function has %d loops)' % (fnpath, n, len(loops)))
            lp = loops[n - 1]
            if lp.kw != 'for':
                raise ExtractError('%s: loop #%d is not a for loop' % (fnpath, n))
            # split PAT in EXPR
            k = lp.kw_idx + 1
            depth = 0
            in_idx = None
            while k < lp.body_open:
                t = toks[k]
                if t.kind == 'punct' and t.text in rsx.OPEN: depth += 1
                elif t.kind == 'punct' and t.text in rsx.CLOSE: depth -= 1
                elif t.kind == 'ident' and t.text == 'in' and depth == 0:
                    in_idx = k; break
                k += 1
            if in_idx is None: raise ExtractError('%s: loop #%d: no `in`' % (fnpath, n))
            pat = rsx.text_of(toks, lp.kw_idx + 1, in_idx).strip()
            expr = rsx.text_of(toks, in_idx + 1, lp.body_open).strip()
            var = ls.get('var', 'vit%d' % n)
            mode = ls['desugar']
            if mode == 'iter':
                init = 'let mut %s = %s;' % (var, expr)
            elif mode == 'into_iter':
                init = 'let mut %s = (%s).into_iter();' % (var, expr)
            else:
                raise ExtractError('%s: loop #%d: unknown desugar mode %r' % (fnpath, n, mode))
            body = rsx.text_of(toks, lp.body_open + 1, lp.body_close)
            new = ('{ %s loop { let %s = match %s.next() { Some(v_) => v_, None => break, };%s} }'
                   % (init, pat, var, body))
            text = rsx.text_of(toks, 0, lp.kw_idx) + new + rsx.text_of(toks, lp.body_close + 1, len(toks))
            delta_before = len(toks)
            toks = tokenize(text)
            body_hi += len(toks) - delta_before
            self.rule('R4')
        return toks, body_hi

    # ---- R13: `for &x in e { .. }` -> `for x_r in e { let x = *x_r; .. }`
    def normalise_ref_patterns(self, toks, general=True):
        """Verus' `for` accepts only an identifier pattern.  `for &x in e {B}` binds x to a copy of the referenced element
        (the pattern requires Copy), which is exactly `for x_r in e { let x = *x_r; B }`; in general `for PAT in e {B}` with an
        irrefutable pattern is `for t in e { let PAT = t; B }` (and `for &PAT in e` is `for t in e { let PAT = *t; B }`)."""
        changed = True; n = 0
        while changed:
            changed = False
            for lp in find_loops(toks, 0, len(toks)):
                if lp.kw != 'for': continue
                a = rsx._skip_trivia(toks, lp.kw_idx + 1, lp.body_open)
                # the `in` keyword at bracket depth 0 ends the pattern
                d = 0; in_idx = None
                for j in range(a, lp.body_open):
                    t = toks[j]
                    if t.kind == 'punct' and t.text in rsx.OPEN: d += 1
                    elif t.kind == 'punct' and t.text in rsx.CLOSE: d -= 1
                    elif t.kind == 'ident' and t.text == 'in' and d == 0: in_idx = j; break
                if in_idx is None: continue
                pat = [t for t in toks[a:in_idx] if t.kind not in ('ws', 'comment')]
                if len(pat) == 1 and pat[0].kind == 'ident': continue                       # plain identifier: nothing to do
                if len(pat) == 2 and pat[0].text == 'mut' and pat[1].kind == 'ident': continue
                deref = pat[0].kind == 'punct' and pat[0].text == '&'
                if not general and not (deref and len(pat) == 2 and pat[1].kind == 'ident'): continue   # loops under a loop spec keep their pattern (R4 desugars it)
                ptext = rsx.text_of(toks, a + (1 if deref else 0), in_idx).strip()
                if deref and len(pat) == 2 and pat[1].kind == 'ident': tmp = pat[1].text + '_r'      # historic name of the simple case
                else: tmp = 'r13_%d' % n
                text = (rsx.text_of(toks, 0, a) + tmp + ' ' + rsx.text_of(toks, in_idx, lp.body_open + 1)
                        + ' let %s = %s%s;' % (ptext, '*' if deref else '', tmp) + rsx.text_of(toks, lp.body_open + 1, len(toks)))
                toks = tokenize(text)
                self.rule('R13'); n += 1
                changed = True
                break
        return toks

    # ---- R16: a pattern in parameter position -> a plain parameter and a `let` of the pattern at the top of the body
    def normalise_param_patterns(self, ftoks):
        """`fn f(.., PAT: T, ..) { B }` with an irrefutable non-identifier PAT (a tuple such as `(start, end)`) is by definition
        `fn f(.., p: T, ..) { let PAT = p; B }`; Verus accepts only identifier parameters, even on an external_body signature."""
        items = split_items(ftoks, 0, len(ftoks))
        if len(items) != 1 or items[0].kind != 'fn' or items[0].body_open < 0: return ftoks
        it = items[0]
        try: fp = fn_parts(ftoks, it)
        except Exception: return ftoks
        depth = 0; cur_start = fp.params_open + 1; pieces = []   # (start, end) token ranges of the parameters
        for j in range(fp.params_open + 1, fp.params_close + 1):
            t = ftoks[j]
            if j == fp.params_close or (t.kind == 'punct' and t.text == ',' and depth == 0):
                pieces.append((cur_start, j)); cur_start = j + 1; continue
            if t.kind == 'punct' and (t.text in rsx.OPEN or t.text == '<'): depth += 1
            elif t.kind == 'punct' and (t.text in rsx.CLOSE or t.text == '>'): depth -= 1
            elif t.kind == 'punct' and t.text == '>>': depth -= 2
        edits = []; lets = []
        for k, (a_, b_) in enumerate(pieces):
            sig = [j for j in range(a_, b_) if ftoks[j].kind not in ('ws', 'comment')]
            if not sig: continue
            txt = ''.join(ftoks[j].text for j in sig)
            if re.match(r"^(&('\w+)?(mut)?self|(mut)?self)\b", txt): continue
            # the pattern ends at the first top-level ':' (not '::')
            d2 = 0; colon = None
            for j in sig:
                t = ftoks[j]
                if t.kind == 'punct' and t.text in rsx.OPEN: d2 += 1
                elif t.kind == 'punct' and t.text in rsx.CLOSE: d2 -= 1
                elif t.kind == 'punct' and t.text == ':' and d2 == 0: colon = j; break
            if colon is None: continue
            pat = [j for j in sig if j < colon]
            ptxt = ' '.join(ftoks[j].text for j in pat)
            if re.fullmatch(r'(mut )?[A-Za-z_][A-Za-z0-9_]*', ptxt): continue
            fresh = 'p16_%d' % k
            edits.append((pat[0], pat[-1] + 1, fresh)); lets.append('let %s = %s;' % (rsx.text_of(ftoks, pat[0], pat[-1] + 1), fresh))
        if not edits: return ftoks
        out = []; pos = 0
        for a_, b_, new in edits:
            out.append(rsx.text_of(ftoks, pos, a_)); out.append(new); pos = b_
        out.append(rsx.text_of(ftoks, pos, it.body_open + 1)); out.append(' ' + ' '.join(lets) + ' '); out.append(rsx.text_of(ftoks, it.body_open + 1, len(ftoks)))
        self.rule('R16')
        return tokenize(''.join(out))

    # ---- R15: destructuring assignment (unsupported by Verus) -> a `let` of fresh names followed by plain assignments
    def normalise_destructuring_assign(self, toks):
        """`(p0, p1, ..) = E;` at statement level, every p_i a side-effect-free place (identifier / field path) or `_`, is by
        definition `{ let (t0, t1, ..) = E; p0 = t0; p1 = t1; .. }` (the right-hand side is evaluated first, the places are
        assigned left to right).  The fresh names live in the enclosing block; they are numbered per occurrence."""
        n_done = 0
        while True:
            hit = None
            prev = None
            for k, t in enumerate(toks):
                if t.kind in ('ws', 'comment'): continue
                if t.kind == 'punct' and t.text == '(' and (prev is None or (prev.kind == 'punct' and prev.text in ('{', '}', ';'))):
                    try: c = rsx.match_close(toks, k)
                    except RsxError: c = None
                    if c is not None:
                        e = rsx._skip_trivia(toks, c + 1, len(toks))
                        e2 = rsx._skip_trivia(toks, e + 1, len(toks)) if e < len(toks) else len(toks)
                        if e < len(toks) and toks[e].kind == 'punct' and toks[e].text == '=' and not (e2 < len(toks) and toks[e2].kind == 'punct' and toks[e2].text in ('=', '>') and e2 == e + 1):
                            # split the places
                            places = []; cur = []; ok = True; depth = 0
                            for j in range(k + 1, c):
                                tt = toks[j]
                                if tt.kind in ('ws', 'comment'): continue
                                if tt.kind == 'punct' and tt.text == ',' and depth == 0: places.append(cur); cur = []; continue
                                if tt.kind == 'ident' or (tt.kind == 'punct' and tt.text == '.') or (tt.kind == 'lit' and tt.text.isdigit()): cur.append(tt.text)
                                else: ok = False; break
                            if cur: places.append(cur)
                            if ok and len(places) >= 2 and all(p for p in places):
                                # end of the statement: the `;` at bracket depth 0
                                d = 0; semi = None
                                for j in range(e + 1, len(toks)):
                                    tt = toks[j]
                                    if tt.kind != 'punct': continue
                                    if tt.text in rsx.OPEN: d += 1
                                    elif tt.text in rsx.CLOSE:
                                        d -= 1
                                        if d < 0: break
                                    elif tt.text == ';' and d == 0: semi = j; break
                                if semi is not None: hit = (k, c, e, semi, places)
                    if hit: break
                prev = t
            if not hit: return toks
            k, c, e, semi, places = hit
            names = ['r15_%d_%d' % (n_done, i) for i in range(len(places))]
            lhs = '(' + ', '.join('_' if p == ['_'] else n for p, n in zip(places, names)) + ')'
            assigns = ' '.join('%s = %s;' % (''.join(p), n) for p, n in zip(places, names) if p != ['_'])
            text = rsx.text_of(toks, 0, k) + 'let ' + lhs + ' =' + rsx.text_of(toks, e + 1, semi + 1) + ' ' + assigns + rsx.text_of(toks, semi + 1, len(toks))
            toks = tokenize(text)
            self.rule('R15'); n_done += 1

    # ---- R14: beta-reduction of NEW private helper functions (functions that are not in spec/baseline_fns.json)
    def helper_info(self, toks, it, container, mod):
        """describe a function that may be inlined at its call sites, or None.  Conditions: private, has a body, not in the
        baseline, no `&mut self` / by-value `self` receiver, not recursive, and every `return` in its body is `return Err(`."""
        fpath = (container + '::' + it.name) if container else it.name
        if ('%s::%s' % (mod, fpath)) in self.baseline or it.body_open < 0: return None
        if ' for ' in container: return None                      # trait impl method: dispatched, not a helper
        sig = [t for t in toks[it.head:it.body_open] if t.kind not in ('ws', 'comment')]
        if sig and sig[0].text == 'pub': return None
        fp = fn_parts(toks, it)
        # generics
        consts = []
        k = rsx._skip_trivia(toks, fp.name_idx + 1, it.end)
        generic_names = set()
        if toks[k].text == '<':
            j = k + 1; depth = 1; cur = []; entries = []
            while depth > 0:
                t = toks[j]
                if t.text == '<' or (t.kind == 'punct' and t.text in '(['): depth += 1
                elif t.text == '>' or (t.kind == 'punct' and t.text in ')]'): depth -= 1
                elif t.text == '>>': depth -= 2
                if depth <= 0: break
                if t.kind == 'punct' and t.text == ',' and depth == 1: entries.append(cur); cur = []
                else: cur.append(t)
                j += 1
            entries.append(cur)
            for e_ in entries:
                sig_e = [x for x in e_ if x.kind not in ('ws', 'comment')]
                if not sig_e: continue
                if sig_e[0].text == 'const' and len(sig_e) > 1: consts.append(sig_e[1].text)
                elif sig_e[0].kind == 'lifetime': generic_names.add(sig_e[0].text)
                elif sig_e[0].kind == 'ident': generic_names.add(sig_e[0].text)
        # parameters
        params = []; recv = None
        depth = 0; cur = []
        for t in toks[fp.params_open + 1:fp.params_close] + [rsx.Tok('punct', ',', 0)]:
            if t.kind == 'punct' and t.text in rsx.OPEN: depth += 1
            elif t.kind == 'punct' and t.text in rsx.CLOSE: depth -= 1
            elif t.kind == 'punct' and t.text == '<': depth += 1          # generic arguments of a parameter type (no comparisons occur in a parameter list)
            elif t.kind == 'punct' and t.text == '>': depth -= 1
            elif t.kind == 'punct' and t.text == '>>': depth -= 2
            if (t.kind == 'punct' and t.text == ',' and depth == 0):
                txt = ''.join(x.text for x in cur).strip(); cur = []
                if not txt: continue
                flat = re.sub(r'\s+', ' ', txt)
                if flat in ('&self', "&'_ self") or re.fullmatch(r"&'\w+ self", flat): recv = '&self'; continue
                if flat in ('self', 'mut self', '&mut self') or flat.startswith('self:') or re.fullmatch(r"&'\w+ mut self", flat): return None
                # split PAT : TYPE at the first top-level ':'
                d2 = 0; cut = None
                for i_, ch in enumerate(txt):
                    if ch in '([{<': d2 += 1
                    elif ch in ')]}>': d2 -= 1
                    elif ch == ':' and d2 == 0 and txt[i_:i_ + 2] != '::' and (i_ == 0 or txt[i_ - 1] != ':'): cut = i_; break
                if cut is None: return None
                pat = txt[:cut].strip(); ty = txt[cut + 1:].strip()
                if not re.fullmatch(r'(mut\s+)?[A-Za-z_][A-Za-z0-9_]*', pat): return None
                params.append((pat, ty))
            else:
                cur.append(t)
        ret = rsx.text_of(toks, fp.ret_start, fp.ret_end).strip() if fp.ret_start >= 0 else ''
        body = toks[it.body_open + 1:it.body_close]
        sig_body = [t for t in body if t.kind not in ('ws', 'comment')]
        other_return = False
        for i_, t in enumerate(sig_body):
            if t.kind == 'ident' and t.text == 'return':
                if not (i_ + 1 < len(sig_body) and sig_body[i_ + 1].text == 'Err'): other_return = True
            if t.kind == 'ident' and t.text == it.name and i_ + 1 < len(sig_body) and sig_body[i_ + 1].text in ('(', '::'): return None   # recursion
        # a type parameter of the helper that is NAMED in its body could change meaning at the call site (a type parameter of
        # the same name may be in scope there): such helpers are not beta-reduced
        type_generics = set(gn for gn in generic_names if not gn.startswith("'"))
        if any(t.kind == 'ident' and t.text in type_generics for t in sig_body): return None
        has_q = any(t.kind == 'punct' and t.text == '?' for t in sig_body)
        has_ret = any(t.kind == 'ident' and t.text == 'return' for t in sig_body)
        is_result = bool(re.match(r'Result\s*<', ret)) and 'ParseError' in ret
        return dict(name=it.name, container=container, recv=recv, params=params, ret=ret, consts=consts, generics=generic_names,
                    body=''.join(t.text for t in body), has_q=has_q, has_ret=has_ret, is_result=is_result, path=fpath, other_return=other_return)

    def inline_helpers(self, ftoks, helpers, count=None, self_name=None):
        """replace every call of a helper in `helpers` (name -> info) inside ftoks by the beta-reduced body (rule R14).
        count: optional dict name -> [sites seen, sites inlined] (used by the planning pre-pass)."""
        guard = 0
        skip_until = {}
        progress = True
        done_pos = set()
        while progress and guard < 200:
            progress = False; guard += 1
            n = len(ftoks)
            fn_open = fn_close = None
            try:
                its_ = split_items(ftoks, 0, n)
                if len(its_) == 1 and its_[0].kind == 'fn' and its_[0].body_open >= 0: fn_open, fn_close = its_[0].body_open, its_[0].body_close
            except Exception: pass
            for i, t in enumerate(ftoks):
                if t.kind != 'ident' or t.text not in helpers or t.text == self_name: continue
                h = helpers[t.text]
                j = rsx._skip_trivia(ftoks, i + 1, n)
                if j >= n or ftoks[j].text not in ('(', '::'): continue
                # previous significant token
                p = i - 1
                while p >= 0 and ftoks[p].kind in ('ws', 'comment'): p -= 1
                prev = ftoks[p].text if p >= 0 else ''
                if prev == 'fn': continue
                key = t.pos if hasattr(t, 'pos') else i
                start = i
                ok = True
                if prev == '.':
                    q = p - 1
                    while q >= 0 and ftoks[q].kind in ('ws', 'comment'): q -= 1
                    q2 = q - 1
                    while q2 >= 0 and ftoks[q2].kind in ('ws', 'comment'): q2 -= 1
                    if not (q >= 0 and ftoks[q].text == 'self' and (q2 < 0 or ftoks[q2].text not in ('.', '::')) and h['recv'] == '&self'): ok = False
                    start = q
                elif prev == '::':
                    q = p - 1
                    while q >= 0 and ftoks[q].kind in ('ws', 'comment'): q -= 1
                    if not (q >= 0 and ftoks[q].text == 'Self' and h['recv'] is None and h['container']): ok = False
                    start = q
                else:
                    if h['recv'] is not None or h['container']: ok = False
                # turbofish
                tf = []
                k = j
                if ok and ftoks[k].text == '::':
                    k2 = rsx._skip_trivia(ftoks, k + 1, n)
                    if ftoks[k2].text != '<': ok = False
                    else:
                        depth = 0; e = k2
                        while e < n:
                            if ftoks[e].text == '<': depth += 1
                            elif ftoks[e].text == '>':
                                depth -= 1
                                if depth == 0: break
                            e += 1
                        tf = [''.join(x.text for x in ftoks[k2 + 1:e]).strip()]
                        k = rsx._skip_trivia(ftoks, e + 1, n)
                if ok and (k >= n or ftoks[k].text != '('): ok = False
                if count is not None and key not in done_pos:
                    count.setdefault(h['name'], [0, 0])[0] += 1; done_pos.add(key)
                if not ok: continue
                pc = match_close(ftoks, k)
                # arguments
                args = []; depth = 0; cur = []
                for x in ftoks[k + 1:pc]:
                    if x.kind == 'punct' and x.text in rsx.OPEN: depth += 1
                    elif x.kind == 'punct' and x.text in rsx.CLOSE: depth -= 1
                    if x.kind == 'punct' and x.text == ',' and depth == 0:
                        args.append(''.join(y.text for y in cur).strip()); cur = []
                    else: cur.append(x)
                last = ''.join(y.text for y in cur).strip()
                if last: args.append(last)
                if len(args) != len(h['params']): continue
                if h['consts'] and (len(tf) != 1 or len(h['consts']) != 1 or ',' in tf[0]): continue
                if not h['consts'] and tf: continue
                a = rsx._skip_trivia(ftoks, pc + 1, n)
                has_try = a < n and ftoks[a].text == '?'
                body = h['body']
                if h['consts']:
                    body = ''.join((tf[0] if (x.kind == 'ident' and x.text == h['consts'][0]) else x.text) for x in tokenize(body))
                self._r14 = getattr(self, '_r14', 0) + 1
                K = self._r14
                def arg_expr(n_, arg):
                    # an argument that is a plain `&mut` variable of the caller is re-borrowed, not moved (the call would re-borrow it too)
                    if h['params'][n_][1].lstrip().startswith('&mut') and re.fullmatch(r'[A-Za-z_][A-Za-z0-9_]*', arg): return '&mut *%s' % arg
                    return arg
                lets = ''.join('let __r14_%d_%d = %s; ' % (K, n_, arg_expr(n_, arg)) for n_, arg in enumerate(args))
                for n_, (pat, ty) in enumerate(h['params']):
                    plain = not any(re.search(r'(?<![A-Za-z0-9_])%s(?![A-Za-z0-9_])' % re.escape(gname), ty) for gname in (h['generics'] | set(h['consts']))) and "'" not in ty and 'impl ' not in ty and not ty.lstrip().startswith('&mut')
                    lets += ('let %s: %s = __r14_%d_%d; ' % (pat, ty, K, n_)) if plain else ('let %s = __r14_%d_%d; ' % (pat, K, n_))
                # tail position: the call is the last expression of the enclosing function's body (`... ; H(args) }` closing the fn)
                in_tail = False
                if not has_try and fn_close is not None and a == fn_close:
                    b_ = start - 1
                    while b_ >= 0 and ftoks[b_].kind in ('ws', 'comment'): b_ -= 1
                    in_tail = b_ >= 0 and ftoks[b_].text in ('{', ';', '}') and (b_ == fn_open or ftoks[b_].text in (';', '}'))
                if has_try and h['is_result'] and not h['other_return']:
                    rep = '({ %slet __r14_%d_r = crate::vp::r14_res({%s}); __r14_%d_r? })' % (lets, K, body, K); end = a + 1      # parenthesised: a block at statement start followed by an operator would end the statement
                elif not has_try and not h['has_q'] and not h['has_ret']:
                    rep = '({ %s{%s} })' % (lets, body); end = pc + 1
                elif in_tail:
                    # returning from the helper IS returning from the caller here, so `?` and `return` keep their meaning
                    rep = '{ %s%s }' % (lets, body); end = pc + 1
                else:
                    continue
                text = rsx.text_of(ftoks, 0, start) + rep + rsx.text_of(ftoks, end, n)
                ftoks = tokenize(text)
                if count is not None: count[h['name']][1] += 1
                else: self.rule('R14')
                progress = True
                break
        return ftoks

    def plan_inlining(self, toks, items, mod):
        """which new private helpers of this module have ALL their call sites beta-reducible (rule R14)"""
        cands = {}
        fns = []
        for it in items:
            if it.kind == 'macro_rules' and self.cfg_keep(it):
                try: self.register_macro(toks, it)          # call sites may sit inside macro bodies (R1 expands them first)
                except Exception: pass
        for it in items:
            if not self.cfg_keep(it): continue
            if it.kind == 'fn': fns.append((it, ''))
            elif it.kind == 'impl':
                for ch in it.children:
                    if ch.kind == 'fn' and self.cfg_keep(ch): fns.append((ch, it.name))
            elif it.kind == 'trait':
                for ch in it.children:
                    if ch.kind == 'fn' and self.cfg_keep(ch): fns.append((ch, 'trait ' + it.name))
        names = {}
        for it, cont in fns: names[it.name] = names.get(it.name, 0) + 1
        for it, cont in fns:
            if cont.startswith('trait '): continue
            try: h = self.helper_info(toks, it, cont, mod)
            except Exception: h = None
            if h is not None and names[it.name] == 1: cands[it.name] = h
        if not cands: return {}
        count = {}
        for it, cont in fns:
            if it.body_open < 0: continue
            src = rsx.text_of(toks, it.start, it.end)
            try:
                ft = tokenize(src)
                ft = self.expand_macros(ft) if self.macros else ft
                self.inline_helpers(ft, cands, count=count, self_name=it.name)
            except Exception:
                for c in cands: count.setdefault(c, [0, 0])[0] += 1       # be conservative: treat as a site that cannot be inlined
        plan = {n: h for n, h in cands.items() if count.get(n, [0, 0])[0] > 0 and count[n][0] == count[n][1]}
        return plan

    # ---- one function
    def process_fn(self, toks, item, module, container, fnspec, in_trait_impl=False, pub_container=False):
        """full splice; if a rewrite pattern / loop anchor of the spec no longer matches the source (the function
        was edited), fall back to an external_body version that keeps only the signature-level contract and is
        flagged `lost` (every property that relies on this function becomes UNDECIDED, the others are unaffected)"""
        snap_clauses = dict(self.clauses); snap_rules = dict(self.rules_used); snap_fns = len(self.fns)
        fpath_ = (container + '::' + item.name) if container else item.name
        if self.canary and not (fnspec or {}).get('requires') and item.body_open >= 0 and (module, fpath_) not in self.force_external:
            # canary file: only functions with a precondition (and the per-module axiom canaries) need to be verified;
            # everything else is left unverified there (signature-level contract only), which makes the canary pass cheap
            fs = {k: v for k, v in (fnspec or {'path': fpath_}).items() if k in ('path', 'ret', 'requires', 'ensures')}
            fs['external_body'] = True
            return self._process_fn(toks, item, module, container, fs, in_trait_impl, 'external')
        try:
            if (module, fpath_) in self.force_external:
                raise ExtractError(self.force_external[(module, fpath_)])
            return self._process_fn(toks, item, module, container, fnspec, in_trait_impl, 'full')
        except (ExtractError, RsxError) as e:
            if not fnspec and (module, fpath_) not in self.force_external: raise
            fnspec = fnspec or {'path': fpath_}
            self.clauses = snap_clauses; self.rules_used = snap_rules; del self.fns[snap_fns:]
            fs = {k: v for k, v in fnspec.items() if k in ('path', 'ret', 'requires', 'ensures', 'attrs')}
            fs['external_body'] = True
            text, rec = self._process_fn(toks, item, module, container, fs, in_trait_impl, 'external')
            rec.lost = str(e)
            return text, rec

    def _process_fn(self, toks, item, module, container, fnspec, in_trait_impl, mode):
        name = item.name
        path = (container + '::' + name) if container else name
        rec = FnRecord(module, path)
        rec.src_line = 0
        # attributes: drop the ones that evaluated to true cfg; keep the rest verbatim
        src = rsx.text_of(toks, item.start, item.end)
        ftoks = tokenize(src)
        # ---------- R phase
        ftoks = self.expand_macros(ftoks) if self.macros else ftoks
        ftoks = self.apply_shims(ftoks)
        ftoks = self.normalise_param_patterns(ftoks)
        ftoks = self.normalise_destructuring_assign(ftoks)
        if getattr(self, 'inline_plan', None) and name not in self.inline_plan:
            ftoks = self.inline_helpers(ftoks, self.inline_plan, self_name=name)
        ftoks = self.normalise_ref_patterns(ftoks, general=not (fnspec or {}).get('loop'))
        for rw in (fnspec or {}).get('rewrite', []):
            ftoks = self.apply_rewrite(ftoks, rw, path)
        for fd in sorted((fnspec or {}).get('find', []), key=lambda x: -x['n']):
            ftoks = self.desugar_find(ftoks, fd, path)
        for cd in sorted((fnspec or {}).get('collect', []), key=lambda x: -x['n']):
            ftoks = self.desugar_collect(ftoks, cd, path)
        items = split_items(ftoks, 0, len(ftoks))
        if len(items) != 1 or items[0].kind != 'fn':
            raise ExtractError('%s: did not re-parse as one fn after rewriting' % path)
        fitem = items[0]
        loop_specs = (fnspec or {}).get('loop', [])
        if fitem.body_open >= 0 and any(ls.get('desugar') for ls in loop_specs):
            ftoks, _ = self.desugar_for(ftoks, fitem.body_open + 1, fitem.body_close, loop_specs, path)
            items = split_items(ftoks, 0, len(ftoks))
            fitem = items[0]
        rtext = ''.join(t.text for t in ftoks)       # R-phase result
        # ---------- splice phase
        ins = {}   # token index -> list of texts inserted BEFORE that token
        def add(idx, text, front=False):
            if front: ins.setdefault(idx, []).insert(0, text)
            else: ins.setdefault(idx, []).append(text)
        fp = fn_parts(ftoks, fitem)
        rec.has_body = fitem.body_open >= 0
        vis = code_text(ftoks[fitem.start:fitem.head])
        rec.public = ('pub' in [t.text for t in ftoks[fitem.start:fitem.head] if t.kind == 'ident']
                      and 'pub (' not in vis) or in_trait_impl
        sp = fnspec or {}
        attrs = list(sp.get('attrs', []))
        if sp.get('external_body'):
            attrs.append('#[verifier::external_body]')
            rec.external = True
        elif fitem.body_open >= 0 and (sp.get('ensures') or sp.get('requires') or sp.get('loop')) and not any('spinoff' in a_ for a_ in attrs):
            # own solver instance per contracted function: lets Verus verify the functions of one module in parallel
            attrs.append('#[verifier::spinoff_prover]')

        if attrs:
            # before the first non-attribute token of the item (after existing attrs is fine too)
            add(fitem.head if not _has_vis(ftoks, fitem) else _vis_idx(ftoks, fitem), ' '.join(attrs) + ' ')
        req = _clauses(sp.get('requires'), path, 'requires')
        ens = _clauses(sp.get('ensures'), path, 'ensures')
        rec.requires_n = len(req)
        retname = sp.get('ret')
        if ens and fp.ret_start >= 0 and retname:
            add(fp.ret_start, '(%s: ' % retname)
            add(fp.ret_end, ')')
        elif retname and fp.ret_start < 0:
            raise ExtractError('%s: ret name given but the fn has no return type' % path)
        sigtxt = []
        def emit_clauses(kw, cl, sep=','):
            if not cl: return
            sigtxt.append('\n        %s' % kw)
            for c in cl:
                lab = ''
                if c.label:
                    self.register_clause(c, path, kw, module)
                    rec.labels.append(c.label)
                    lab = ' /*#%s*/' % c.label
                sigtxt.append('\n            (%s)%s%s' % (c.text.strip(), sep, lab))
        emit_clauses('requires', req)
        keep_ = self.only_ensures.get((module, path))
        if keep_ is not None: ens = [c for c in ens if c.label == keep_]
        emit_clauses('ensures', ens)
        if sp.get('decreases'):
            sigtxt.append('\n        decreases %s' % sp['decreases'])
        if sp.get('no_unwind'):
            sigtxt.append('\n        no_unwind')
        if sigtxt:
            sigtxt.append('\n    ')
            add(fp.sig_end, ''.join(sigtxt))
        if rec.has_body:
            entry = sp.get('entry', '')
            if self.canary and req and not rec.external:
                entry = 'proof { assert(false); } /*#CANARY:%s*/ ' % path + entry
            if entry:
                add(fitem.body_open + 1, '\n' + entry + '\n')
            if sp.get('exit'):
                add(fitem.body_close, '\n' + sp['exit'] + '\n')
            loops = find_loops(ftoks, fitem.body_open + 1, fitem.body_close)
            rec.loops = len(loops)
            for ls in loop_specs:
                n = ls['n']
                if n < 1 or n > len(loops):
                    raise ExtractError('%s: loop #%d does not exist (function has %d loops)' % (path, n, len(loops)))
                lp = loops[n - 1]
                parts = []
                if lp.kw == 'for' and ls.get('iter_name'):
                    # for PAT in NAME: EXPR
                    k = lp.kw_idx + 1
                    depth = 0
                    while k < lp.body_open:
                        t = ftoks[k]
                        if t.kind == 'punct' and t.text in rsx.OPEN: depth += 1
                        elif t.kind == 'punct' and t.text in rsx.CLOSE: depth -= 1
                        elif t.kind == 'ident' and t.text == 'in' and depth == 0: break
                        k += 1
                    add(rsx._skip_trivia(ftoks, k + 1, lp.body_open), '%s: ' % ls['iter_name'])
                for kw in ('invariant_except_break', 'invariant', 'ensures'):
                    cl = _clauses(ls.get(kw), path, kw)
                    if cl:
                        parts.append('\n            %s' % kw)
                        for ci, c in enumerate(cl):
                            lab = ''
                            if c.label:
                                self.register_clause(c, path, 'loop %d %s' % (n, kw), module)
                                rec.labels.append(c.label)
                                lab = ' /*#%s*/' % c.label
                            parts.append('\n                (%s),%s' % (c.text.strip(), lab))
                if ls.get('decreases'):
                    parts.append('\n            decreases %s' % ls['decreases'])
                if parts:
                    parts.append('\n        ')
                    add(lp.body_open, ''.join(parts))
                if ls.get('before'):
                    anchor = lp.label_idx if lp.label_idx >= 0 else lp.kw_idx
                    if ls.get('desugar'):
                        # before the `{ let mut vit = ..; loop` block: the block's '{' precedes `let`
                        a = lp.kw_idx
                        depth = 0
                        while a > 0:
                            a -= 1
                            if ftoks[a].kind == 'punct' and ftoks[a].text == '{': break
                        anchor = a
                    add(anchor, ls['before'] + '\n')
                if ls.get('after_init'):
                    # desugared loop: between `let mut vit = ..;` and the `loop` keyword
                    add(lp.label_idx if lp.label_idx >= 0 else lp.kw_idx, ls['after_init'] + '\n')
                if ls.get('pre_next'):
                    add(lp.body_open + 1, ' ' + ls['pre_next'] + ' ', front=True)
                if ls.get('body_start'):
                    if ls.get('desugar'):
                        # after the `let PAT = match vit.next() {..};` statement
                        k = lp.body_open + 1
                        depth = 0
                        while k < lp.body_close:
                            t = ftoks[k]
                            if t.kind == 'punct' and t.text in rsx.OPEN: depth += 1
                            elif t.kind == 'punct' and t.text in rsx.CLOSE: depth -= 1
                            elif t.kind == 'punct' and t.text == ';' and depth == 0: break
                            k += 1
                        add(k + 1, '\n' + ls['body_start'] + '\n')
                    else:
                        add(lp.body_open + 1, '\n' + ls['body_start'] + '\n')
                if ls.get('body_end'):
                    add(lp.body_close, '\n' + ls['body_end'] + '\n')
                if ls.get('after'):
                    a = lp.body_close + 1
                    if ls.get('desugar'):
                        # after the closing brace of the wrapper block
                        a = rsx._skip_trivia(ftoks, a, len(ftoks))
                        if ftoks[a].text != '}': raise ExtractError('%s: desugared loop wrapper not found' % path)
                        a += 1
                    add(a, '\n' + ls['after'] + '\n')
            for at in sp.get('at', []):
                try:
                    self.place_at(ftoks, fitem, at, add, path)
                except ExtractError as e:
                    # a proof hint whose anchor statement was edited: verify without it; a failure in this
                    # function is then UNDECIDED (it may only be the missing hint), never a violation
                    rec.lost_hints.append(str(e))
            for asr in sp.get('assert', []):
                c = Clause(asr['label'], list(asr.get('own', [])), list(asr.get('dep', [])), asr['text'])
                self.register_clause(c, path, 'site assertion', module)
                rec.labels.append(c.label)
                at = dict(anchor=asr['anchor'], where=asr.get('where', 'before'), nth=asr.get('nth'),
                          text='proof { assert(%s); /*#%s*/ }' % (asr['text'].strip(), asr['label']))
                try:
                    self.place_at(ftoks, fitem, at, add, path)
                except ExtractError as e:
                    rec.lost_hints.append(str(e)); rec.lost_sites.append(c.label)
        elif sp.get('entry') or loop_specs or sp.get('at'):
            raise ExtractError('%s: body annotations on a fn without body' % path)
        # render
        out = []
        for k, t in enumerate(ftoks):
            if k in ins:
                out.append(g(''.join(ins[k])))
            out.append(t.text)
        if len(ftoks) in ins:
            out.append(g(''.join(ins[len(ftoks)])))
        text = ''.join(out)
        # ---------- self-check: stripping ghost spans gives back the R-phase token stream
        stripped = strip_ghost(text)
        if code_text(tokenize(stripped)) != code_text(tokenize(rtext)):
            raise ExtractError('%s: self-check failed: spliced text is not the extracted code' % path)
        self.fns.append(rec)
        return text, rec

    def place_at(self, ftoks, fitem, at, add, path):
        pat = [t.text for t in tokenize(at['anchor']) if t.kind not in ('ws', 'comment')]
        lo, hi = fitem.body_open + 1, fitem.body_close
        sg = [k for k in range(lo, hi) if ftoks[k].kind not in ('ws', 'comment')]
        ts = [ftoks[k].text for k in sg]
        hits = [i for i in range(len(ts) - len(pat) + 1) if ts[i:i + len(pat)] == pat]
        nth = at.get('nth')
        if nth is not None:
            if nth < 1 or nth > len(hits):
                raise ExtractError('%s: anchor %r: occurrence %d of %d' % (path, at['anchor'], nth, len(hits)))
            hits = [hits[nth - 1]]
        if len(hits) != 1:
            raise ExtractError('%s: anchor %r matches %d times' % (path, at['anchor'], len(hits)))
        i = hits[0]
        where = at.get('where', 'after')
        text = '\n' + at['text'] + '\n'
        if where == 'before':
            add(sg[i], text)
        elif where == 'after':
            # end of the statement that starts at the anchor: next ';' at depth 0
            k = sg[i]
            depth = 0
            while k < hi:
                t = ftoks[k]
                if t.kind == 'punct' and t.text in rsx.OPEN: depth += 1
                elif t.kind == 'punct' and t.text in rsx.CLOSE:
                    depth -= 1
                    if depth < 0: raise ExtractError('%s: anchor %r: statement has no terminating ;' % (path, at['anchor']))
                elif t.kind == 'punct' and t.text == ';' and depth == 0:
                    add(k + 1, text); return
                k += 1
            raise ExtractError('%s: anchor %r: no ; found' % (path, at['anchor']))
        elif where == 'inside':
            # just after the first '{' at depth 0 following the anchor start
            k = sg[i]
            depth = 0
            while k < hi:
                t = ftoks[k]
                if t.kind == 'punct' and t.text == '{' and depth == 0:
                    add(k + 1, text); return
                if t.kind == 'punct' and t.text in rsx.OPEN: depth += 1
                elif t.kind == 'punct' and t.text in rsx.CLOSE: depth -= 1
                k += 1
            raise ExtractError('%s: anchor %r: no block found' % (path, at['anchor']))
        elif where == 'after_block':
            k = sg[i]
            depth = 0
            while k < hi:
                t = ftoks[k]
                if t.kind == 'punct' and t.text == '{' and depth == 0:
                    add(match_close(ftoks, k) + 1, text); return
                if t.kind == 'punct' and t.text in rsx.OPEN: depth += 1
                elif t.kind == 'punct' and t.text in rsx.CLOSE: depth -= 1
                k += 1
            raise ExtractError('%s: anchor %r: no block found' % (path, at['anchor']))
        else:
            raise ExtractError('%s: bad where %r' % (path, where))

    def register_clause(self, c, path, kind, module):
        if c.label in self.clauses:
            raise ExtractError('duplicate clause label %s' % c.label)
        self.clauses[c.label] = dict(own=c.own, dep=c.dep, text=c.text.strip(), fn=path, kind=kind, module=module)

    # ---- G2: spec_size / spec_accepts / spec_decode of a ParseAt impl from the ABI layout table
    def gen_abi_impl(self, name):
        if not hasattr(self, '_abi'):
            self._abi = tomllib.load(open(os.path.join(self.spec.dir, 'abi_layout.toml'), 'rb'))
        if name not in self._abi: raise ExtractError('abi_layout: no entry %s' % name)
        L = self._abi[name]
        def disk(cls):
            return L.get(cls) or L['both']
        def dval(row):
            fname, off, w, k = row
            if k == 'u': return '(fld(little, d, b + %d, %d) as u%d)' % (off, w, 8 * w)
            return '(sfld(little, d, b + %d, %d) as i%d)' % (off, w, 8 * w)
        def subst(expr, rows):
            for r in sorted(rows, key=lambda r: -len(r[0])):
                expr = expr.replace('$' + r[0], dval(r))
            if '$' in expr: raise ExtractError('abi_layout %s: unresolved field in %r' % (name, expr))
            return expr
        def decode(cls):
            rows = disk(cls)
            if L.get('prim'):
                return dval(rows[0])
            ex = L.get('expr', {}).get(cls, {})
            fields = []
            for fname, ty in L['native']:
                if fname in ex:
                    e = subst(ex[fname], rows)
                else:
                    row = [r for r in rows if r[0] == fname]
                    if not row: raise ExtractError('abi_layout %s/%s: native field %s has no on-disk field' % (name, cls, fname))
                    dty = ('u%d' if row[0][3] == 'u' else 'i%d') % (8 * row[0][2])
                    e = dval(row[0]) if dty == ty else '(%s as %s)' % (dval(row[0]), ty)
                fields.append((fname, e))
            if L.get('tuple'):
                return '%s(%s)' % (name, ', '.join(e for _, e in fields))
            return '%s { %s }' % (name, ', '.join('%s: %s' % fe for fe in fields))
        def accepts(cls):
            a = L.get('accepts')
            if not a: return 'true'
            return subst(a, disk(cls))
        out = []
        out.append('open spec fn spec_size(class: Class) -> nat { match class { Class::ELF32 => %d, Class::ELF64 => %d } }' % (L['size']['ELF32'], L['size']['ELF64']))
        out.append('proof fn lemma_size_pos(class: Class) {}')
        vis = 'closed' if L.get('closed') else 'open'
        out.append(vis + ' spec fn spec_accepts(little: bool, class: Class, d: Seq<u8>, b: int) -> bool { match class { Class::ELF32 => %s, Class::ELF64 => %s } }' % (accepts('ELF32'), accepts('ELF64')))
        out.append(vis + ' spec fn spec_decode(little: bool, class: Class, d: Seq<u8>, b: int) -> Self {\n        match class {\n            Class::ELF32 => %s,\n            Class::ELF64 => %s,\n        }\n    }' % (decode('ELF32'), decode('ELF64')))
        # locality: decoding inside a sub-buffer == decoding at the shifted offset of the whole buffer
        def calls(cls):
            return ' '.join('lemma_fld_sub(little, d, s, e, b + %d, %d);' % (r[1], r[2]) for r in disk(cls))
        out.append('proof fn lemma_decode_sub(little: bool, class: Class, d: Seq<u8>, s: int, e: int, b: int) {\n        match class { Class::ELF32 => { %s } Class::ELF64 => { %s } }\n    }' % (calls('ELF32'), calls('ELF64')))
        return '\n    '.join(out)

    # ---- G3: `*_to_str`: a returned name is the identifier of an exported constant with that value
    def auto_fn_spec(self, rule, toks, it, mod, fpath):
        if rule['gen'] != 'to_str_names':
            raise ExtractError('unknown fn generator %r' % rule['gen'])
        if not hasattr(self, '_abi_consts'):
            src = open(os.path.join(self.repo, 'src', 'abi.rs')).read()
            self._abi_consts = {m.group(1): m.group(2) for m in re.finditer(r'^pub const (\w+): (\w+) =', src, re.M)}
        fp = fn_parts(toks, it)
        params = [t for t in toks[fp.params_open + 1:fp.params_close] if t.kind not in ('ws', 'comment')]
        if len(params) < 3 or params[1].text != ':' or params[2].text not in INT_SIZES:
            raise ExtractError('%s: to_str generator expects one integer parameter' % fpath)
        pname, pty = params[0].text, params[2].text
        lits = []
        for t in toks[it.body_open:it.body_close]:
            if t.kind == 'lit' and t.text.startswith('"'):
                v = t.text[1:-1]
                if v not in lits: lits.append(v)
        disj = []
        for v in lits:
            if v in self._abi_consts:
                disj.append('(s == "%s" && x == crate::abi::%s as %s)' % (v, v, pty))
        if not disj:
            # e.g. the match was turned into a table lookup: the names are no longer in this function's text
            raise ExtractError('%s: to_str generator found no constant-name literal in the body (lost anchor)' % fpath)
        sfn = 'names_' + it.name
        spec = ('pub open spec fn %s(s: &str, x: %s) -> bool {\n    %s\n}\n'
                % (sfn, pty, '\n    '.join('||| ' + d for d in disj) if disj else 'false'))
        self.rule('G3')
        self.pending_ghost_items = getattr(self, 'pending_ghost_items', []) + [spec]
        return {'path': fpath, 'ret': 'r', 'ensures': [
            {'label': 'C19.%s.name_is_constant_with_that_value' % it.name, 'own': ['C19'], 'dep': [],
             'text': 'r is Some ==> %s(r->Some_0, %s)' % (sfn, pname)}]}

    # ---- G4: one compute-checked assertion per exported integer constant that the reference table defines
    def gen_abi_values(self, toks, items, mod):
        ref = json.load(open(os.path.join(self.spec.dir, 'abi_reference.json')))['constants']
        names = []
        for it in items:
            if it.kind == 'const' and self.cfg_keep(it):
                ts = [t.text for t in toks[it.head:it.end] if t.kind not in ('ws', 'comment')]
                # const NAME : TYPE = ...
                if len(ts) > 4 and ts[2] == ':' and ts[3] in INT_SIZES or (len(ts) > 4 and ts[3] == 'usize'):
                    if it.name in ref and not self.force_external.get((mod, 'const ' + it.name)): names.append(it.name)
                    elif it.name in ref: self.lost_value_clauses = getattr(self, 'lost_value_clauses', []) + [it.name]
        out = ['// G4: every exported integer constant that glibc <elf.h> / LLVM BinaryFormat define (consistently) has that value',
               'pub mod abi_values {', 'use vstd::prelude::*;', 'use crate::%s::*;' % mod]
        mod = 'abi_values'
        for i in range(0, len(names), 60):
            out.append('proof fn abi_values_%d() {' % (i // 60))
            for n in names[i:i + 60]:
                lab = 'C19.value.%s' % n
                self.clauses[lab] = dict(own=['C19'], dep=[], text='abi::%s == %d  (reference: %s)' % (n, ref[n]['value'], ref[n]['src']), fn='abi constants', kind='constant value', module=mod)
                out.append('    assert(%s as int == %d) by (compute_only); /*#%s*/' % (n, ref[n]['value'], lab))
            out.append('}')
        out.append('} // mod abi_values')
        self.rule('G4')
        self.abi_values_checked = len(names)
        self.extra_modules = getattr(self, 'extra_modules', []) + ['abi_values']
        return '\n'.join(out)

    # ---- one module
    def process_module(self, mod):
        path = os.path.join(self.repo, 'src', mod + '.rs')
        try:
            src = open(path).read()
        except OSError as e:
            raise ExtractError('cannot read %s: %s' % (path, e))
        try:
            toks = tokenize(src)
            items = split_items(toks, 0, len(toks))
        except RsxError as e:
            raise ExtractError('%s: %s' % (path, e))
        ms = self.spec.module(mod)
        self.inline_plan = self.plan_inlining(toks, items, mod) if self.baseline else {}
        drops = {d['item']: d for d in ms.get('drop', [])}
        drops.update({d['item']: d for d in self.spec.units.get('drop', []) if d.get('module') in (None, mod)})
        fnspecs = {f['path']: f for f in ms.get('fn', [])}
        implspecs = {}
        for i in ms.get('impl', []):
            implspecs.setdefault(i['header'], []).append(i)
        itemspecs = {i['name']: i for i in ms.get('item', [])}
        out = []
        line_of = _line_index(src)
        seen_fn = {}
        def item_src_line(it):
            return line_of(toks[it.head].pos)
        def do_fn(it, container, in_trait_impl=False):
            fpath = (container + '::' + it.name) if container else it.name
            seen_fn[fpath] = seen_fn.get(fpath, 0) + 1
            if seen_fn[fpath] > 1:
                raise ExtractError('%s: fn path %s is ambiguous' % (mod, fpath))
            fs = fnspecs.get(fpath); lost_auto = None
            if fs is not None: self.used_fn_specs.add((mod, fpath))
            if fs is None:
                for rule in ms.get('auto_fn', []):
                    if re.fullmatch(rule['match'], fpath):
                        try:
                            fs = self.auto_fn_spec(rule, toks, it, mod, fpath)
                        except ExtractError as e:
                            # the generated clause cannot be stated for this text (e.g. a table-driven to_str): the body is still
                            # verified for safety / termination; only the generated clause is lost (undecided for its property)
                            fs = None; lost_auto = (rule, str(e))
                        break
            if fs is None and it.name in self.inline_plan and self.inline_plan[it.name]['path'] == fpath:
                # R14: every call site of this new private helper is beta-reduced, so the helper itself is never called in the
                # verified text; its body is verified at (and with the context of) each call site
                fs = {'path': fpath, 'external_body': True}
            text, rec = self.process_fn(toks, it, mod, container, fs, in_trait_impl)
            if lost_auto is not None:
                lab = 'C19.%s.name_is_constant_with_that_value' % it.name
                self.register_clause(Clause(lab, ['C19'], [], 'r is Some ==> the name is an exported constant with that value (clause could not be generated)'), fpath, 'generated clause (lost)', mod)
                rec.lost_sites.append(lab)
            rec.src_file = 'src/%s.rs' % mod
            rec.src_line = item_src_line(it)
            return text, rec
        for it in items:
            if not self.cfg_keep(it):
                self.dropped.append('D1/D3 %s: %s %s (cfg false in unit %s)' % (mod, it.kind, it.name or it.header[:40], self.unit_name))
                continue
            key = '%s %s' % (it.kind, it.name)
            if key in drops:
                self.dropped.append('%s %s: %s' % (drops[key].get('rule', 'D2'), mod, key))
                self.rule(drops[key].get('rule', 'D2'))
                continue
            if it.kind == 'macro_rules':
                self.register_macro(toks, it)
                self.dropped.append('R1 %s: macro_rules %s (expanded at its call sites)' % (mod, it.name))
                continue
            if it.kind == 'fn':
                text, rec = do_fn(it, '')
                for gi in getattr(self, 'pending_ghost_items', []):
                    out.append(('raw', None, g(gi) + '\n'))
                self.pending_ghost_items = []
                out.append(('fn', rec, _strip_attrs(text)))
            elif it.kind in ('impl', 'trait'):
                hdr_text = rsx.text_of(toks, it.start, it.body_open + 1)
                hdr_text = _strip_attrs(hdr_text)
                pieces = [('raw', None, hdr_text)]
                specs = implspecs.get(it.name if it.kind == 'impl' else 'trait ' + it.name, [])
                for s in specs:
                    self.used_impl_specs.add((mod, s['header']))
                    if s.get('generated'):
                        kind, _, arg = s['generated'].partition(':')
                        if kind != 'abi_layout': raise ExtractError('unknown generator %r' % kind)
                        pieces.append(('raw', None, '\n' + g(self.gen_abi_impl(arg)) + '\n'))
                        self.rule('G2')
                    if s.get('add'):
                        pieces.append(('raw', None, '\n' + g(s['add']) + '\n'))
                is_trait_impl = it.kind == 'impl' and ' for ' in it.name
                item_ty = None
                for ch in it.children:
                    if not self.cfg_keep(ch):
                        self.dropped.append('D1/D3 %s: %s::%s' % (mod, it.name, ch.name)); continue
                    if ch.kind == 'fn':
                        text, rec = do_fn(ch, it.name, in_trait_impl=is_trait_impl)
                        pieces.append(('raw', None, '\n    '))
                        pieces.append(('fn', rec, _strip_attrs(text)))
                    else:
                        t = rsx.text_of(toks, ch.start, ch.end)
                        if ch.kind == 'type' and ch.name == 'Item':
                            item_ty = rsx.text_of(toks, ch.head, ch.end)
                        pieces.append(('raw', None, '\n    ' + t))
                pieces.append(('raw', None, '\n}\n'))
                pre = ''
                if it.kind == 'impl' and it.name.startswith('Iterator for '):
                    # G1: ghost IteratorSpecImpl boilerplate (no prophetic iterator laws claimed)
                    m = re.match(r'type\s+Item\s*=\s*(.*);\s*$', item_ty or '', re.S)
                    if not m: raise ExtractError('%s: Iterator impl without Item type' % it.name)
                    ity = m.group(1).strip()
                    hdr_sig = code_text(toks[it.head:it.body_open])
                    ghost_hdr = re.sub(r'\bIterator for\b', 'vstd::std_specs::iter::IteratorSpecImpl for', hdr_sig, count=1)
                    pre = g('%s {\n    open spec fn obeys_prophetic_iter_laws(&self) -> bool { false }\n'
                            '    uninterp spec fn remaining(&self) -> Seq<%s>;\n    uninterp spec fn will_return_none(&self) -> bool;\n'
                            '    uninterp spec fn decrease(&self) -> Option<nat>;\n    uninterp spec fn peek(&self, i: int) -> Option<%s>;\n}\n'
                            % (ghost_hdr, ity, ity))
                    self.rule('G1')
                out.append(('raw', None, pre))
                out.extend(pieces)
            else:
                t = rsx.text_of(toks, it.start, it.end)
                t = _strip_attrs(t)
                if it.kind in ('enum', 'struct'):
                    t = self.filter_cfg_elements(t, mod, it)
                isp = itemspecs.get('%s %s' % (it.kind, it.name))
                if isp:
                    if isp.get('replace') is not None:
                        if isp.get('expect_source') is not None and rsx.norm(isp['expect_source']) != rsx.norm(t):
                            raise ExtractError('%s: %s %s differs from the text its replacement was written for' % (mod, it.kind, it.name))
                        t = isp['replace']; self.rule(isp.get('rule', 'R3'))
                    if isp.get('attrs'):
                        t = g(' '.join(isp['attrs']) + ' ') + t
                    if isp.get('after'):
                        t = t + '\n' + g(isp['after'])
                if it.kind == 'const':
                    t2 = re.sub(r'^((?:pub(?:\([a-z]+\))?\s+)?const\s+\w+\s*:\s*)&\s*(\[u8\]|str)', r"\1&'static \2", t.lstrip(), count=1, flags=re.S)
                    if t2 != t.lstrip():
                        self.rule('R3'); t = t2
                    crec = ConstRecord(mod, it.name)
                    why = self.force_external.get((mod, 'const ' + it.name))
                    if why:
                        # the front end rejected the initialiser (e.g. a call of a private const fn): the item stays in the
                        # text for rustc but is left out of verification; a reference-value clause for it is lost (undecided)
                        crec.external = why; t = '#[verifier::external] ' + t.lstrip()
                        self.dropped.append('%s: const %s left out of verification (#[verifier::external]): %s' % (mod, it.name, why))
                    self.consts.append(crec)
                    out.append(('raw', crec, '\n' + t + '\n'))       # on lines of its own: a diagnostic's line identifies the item
                    continue
                out.append(('raw', None, t + '\n'))
        for f in fnspecs:
            if (mod, f) not in self.used_fn_specs and not fnspecs[f].get('optional'):
                raise ExtractError('%s: spec for fn %s has no matching function in the source (lost anchor)' % (mod, f))
        for h in implspecs:
            if (mod, h) not in self.used_impl_specs:
                raise ExtractError('%s: spec for impl %r has no matching block in the source (lost anchor)' % (mod, h))
        mspec = dict(ms.get('module', {}))
        # clauses of verified client lemmas written out in the module's `bottom` text (labelled there by hand)
        for mc in ms.get('client_clause', []):
            c = Clause(mc['label'], list(mc.get('own', [])), list(mc.get('dep', [])), mc['text'])
            self.register_clause(c, mc.get('fn', 'client lemma'), 'verified client', mod)
            if ('/*#%s*/' % mc['label']) not in (mspec.get('bottom', '') + mspec.get('top', '')):
                raise ExtractError('%s: client clause %s is not labelled in the module text' % (mod, mc['label']))
        for gname in mspec.get('generated_bottom', []):
            if gname == 'abi_values':
                mspec['after_module'] = mspec.get('after_module', '') + '\n' + self.gen_abi_values(toks, items, mod)
            else:
                raise ExtractError('unknown module generator %r' % gname)
        return out, mspec

    # ---- whole unit
    def build(self, modules=None):
        mods = modules or self.unit['modules']
        chunks = []   # list of (kind, rec, text)
        hdr = ['#![feature(allocator_api)]', '#![allow(unused_imports, dead_code, non_camel_case_types, unused_variables, unused_mut, unused_assignments, non_upper_case_globals, unused_parens, unused_braces)]',
               'use vstd::prelude::*;', 'verus! {', 'global size_of usize == %d;' % self.usize_bytes]
        chunks.append(('raw', None, '\n'.join(hdr) + '\n'))
        pre_files = self.spec.units['prelude']['files']
        pre_files = pre_files + self.unit.get('prelude_extra', [])
        chunks.append(('raw', None, 'pub mod vp {\nuse vstd::prelude::*;\nuse vstd::std_specs::iter::IteratorSpec;\nuse crate::*;\n'))
        for pf in pre_files:
            chunks.append(('raw', None, '// ---- prelude %s\n' % pf + open(os.path.join(self.spec.dir, 'prelude', pf)).read() + '\n'))
        chunks.append(('raw', None, '} // mod vp\n'))
        for m in mods:
            body, mspec = self.process_module(m)
            bu = ['crate::vp::ax::axiom_slice_len_bound'] + list(mspec.get('broadcast', []))
            chunks.append(('raw', None, 'pub mod %s {\nuse vstd::prelude::*;\nuse vstd::std_specs::iter::IteratorSpec;\nuse crate::vp::*;\nbroadcast use {%s};\n' % (m, ', '.join(bu))))
            for k_ in ('top', 'bottom'):
                if mspec.get(k_): mspec[k_] = mspec[k_].replace('${TARGET_IS_LITTLE}', 'true' if self.target_endian == 'little' else 'false')
            # import repair: the spliced contract text of this module names an item that the module imported at the pinned commit
            # and the edited source no longer imports (rustc's own suggestion, taken from its diagnostic, see check.py)
            fixes = sorted(k[1] for k in self.force_external if k[0] == m and k[1].startswith('use '))
            if fixes:
                chunks.append(('raw', None, g(' '.join(u + ';' for u in fixes)) + '\n'))
                self.dropped.append('%s: import repair for the contract text: %s' % (m, '; '.join(fixes)))
            if mspec.get('top'):
                chunks.append(('raw', None, g(mspec['top']) + '\n'))
            chunks.extend(body)
            if mspec.get('bottom'):
                chunks.append(('raw', None, g(mspec['bottom']) + '\n'))
            if self.canary and mspec.get('canary_bottom'):
                # hand-written vacuity canaries for the preconditions of module-level lemmas: each must FAIL
                chunks.append(('raw', None, g(mspec['canary_bottom']) + '\n'))
            if self.canary:
                chunks.append(('raw', None, g('proof fn canary_axioms_in_scope() { assert(false); /*#CANARY:module:%s*/ }' % m) + '\n'))
            chunks.append(('raw', None, '} // mod %s\n' % m))
            if mspec.get('after_module'):
                chunks.append(('raw', None, g(mspec['after_module']) + '\n'))
        chunks.append(('raw', None, '} // verus!\nfn main() {}\n'))
        text = []
        off = 0
        for kind, rec, t in chunks:
            if rec is not None:
                rec.out_start = off
            text.append(t); off += len(t)
            if rec is not None:
                rec.out_end = off
        full = ''.join(text)
        li = _line_index(full)
        for rec in self.fns:
            rec.line_start = li(rec.out_start)
            rec.line_end = li(max(rec.out_start, rec.out_end - 1))
        for rec in self.consts:
            rec.line_start = li(rec.out_start)
            rec.line_end = li(max(rec.out_start, rec.out_end - 1))
        # vacuity guard: a precondition on a public entry point would make "for all inputs" claims vacuous there.
        # Allowed: the documented exceptions listed in units.toml ([allow_public_requires]), nothing else.
        allowed = self.spec.units.get('allow_public_requires', {}).get('fns', [])
        for rec in self.fns:
            if rec.requires_n and rec.public and not any(re.fullmatch(a, '%s::%s' % (rec.module, rec.path)) for a in allowed):
                raise ExtractError('spec puts a `requires` on the public function %s::%s (not in units.toml [allow_public_requires])' % (rec.module, rec.path))
        scan = []
        for m in re.finditer(r'external_body|assume_specification|admit\s*\(|assume\s*\(|external_type_specification|external_trait_specification|\buninterp\b', full):
            scan.append((li(m.start()), m.group(0)))
        return GenResult(full, self.fns, self.clauses, self.rules_used, self.dropped, list(mods) + getattr(self, 'extra_modules', []), scan,
                         consts=self.consts, lost_value_clauses=getattr(self, 'lost_value_clauses', []))

def strip_ghost(text):
    out = []
    i = 0
    while True:
        j = text.find(G_OPEN, i)
        if j < 0:
            out.append(text[i:]); break
        out.append(text[i:j])
        e = text.find(G_CLOSE, j)
        if e < 0: raise ExtractError('unterminated ghost span')
        i = e + len(G_CLOSE)
    return ''.join(out)

_DROP_ATTR = re.compile(r'#\[\s*(cfg\s*\(|inline|doc\s*\(|allow\s*\(|must_use|warn\s*\(|deny\s*\()[^\]]*\]\s*')

def _strip_attrs(text):
    """remove attributes that are irrelevant to (or unknown to) Verus: cfg (already evaluated),
    inline, doc(hidden), allow/warn/deny, must_use.  Only at the very start of an item."""
    lead = re.match(r'\s*', text).group(0)
    rest = text[len(lead):]
    out = []
    while True:
        m = re.match(r'(///[^\n]*\n\s*|//[^\n]*\n\s*)', rest)
        if m:
            out.append(m.group(0)); rest = rest[m.end():]; continue
        m = _DROP_ATTR.match(rest)
        if m:
            rest = rest[m.end():]; continue
        m = re.match(r'#\[[^\]]*\]\s*', rest)
        if m:
            out.append(m.group(0)); rest = rest[m.end():]; continue
        break
    return lead + ''.join(out) + rest

def _has_vis(toks, item):
    return any(t.text == 'pub' for t in toks[item.start:item.head] if t.kind == 'ident')

def _vis_idx(toks, item):
    for k in range(item.start, item.head):
        if toks[k].kind == 'ident' and toks[k].text == 'pub': return k
    return item.head

def _line_index(text):
    starts = [0]
    for m in re.finditer('\n', text):
        starts.append(m.end())
    import bisect
    def li(off):
        return bisect.bisect_right(starts, off)
    return li

if __name__ == '__main__':
    import argparse
    ap = argparse.ArgumentParser()
    ap.add_argument('--repo', default=os.environ.get('VERIF_REPO', '/repo'))
    ap.add_argument('--spec', default=os.path.join(os.path.dirname(os.path.abspath(__file__)), '..', 'spec'))
    ap.add_argument('--unit', default='core')
    ap.add_argument('--out', default='-')
    ap.add_argument('--usize', type=int, default=8)
    ap.add_argument('--canary', action='store_true')
    a = ap.parse_args()
    ex = Extractor(a.repo, a.spec, a.unit, a.usize, a.canary)
    r = ex.build()
    if a.out == '-': sys.stdout.write(r.text)
    else: open(a.out, 'w').write(r.text)
    sys.stderr.write('functions: %d, labelled clauses: %d, rules: %s\n' % (len(r.fns), len(r.clauses), r.rules_used))
