"""vrun -- run Verus on a generated unit and turn its diagnostics into obligation verdicts."""
import os, re, json, subprocess, hashlib, time, shutil

VERUS = shutil.which('verus') or '/opt/veriftools/verus/verus'

LABEL_RE = re.compile(r'/\*#([A-Za-z0-9_.:<> ,&\'\[\]-]+?)\*/')

# messages that mean "the solver could not discharge this obligation" (a failed obligation)
FAIL_PATTERNS = [
    (r'postcondition not satisfied', 'postcondition'),
    (r'precondition not satisfied|precondition not met', 'precondition'),
    (r'assertion failed|expression simplifies to .* evaluates to false', 'assertion'),
    (r'invariant not satisfied', 'invariant'),
    (r'loop ensures not satisfied|ensures not satisfied', 'postcondition'),
    (r'possible arithmetic underflow/overflow', 'arith'),
    (r'possible division by zero', 'arith'),
    (r'possible bit shift underflow/overflow', 'arith'),
    (r'decreases not satisfied|could not prove termination|termination', 'decreases'),
    (r'unreachable|panic', 'panic'),
    (r'recommendation not met', 'recommends'),
    (r'cannot prove|could not prove|failed to', 'other-proof'),
]
UNDECIDED_PATTERNS = [r'[Rr]esource limit', r'rlimit', r'timed? ?out', r'z3 .*(crash|error)', r'solver']

def version():
    try:
        out = subprocess.run([VERUS, '--version'], capture_output=True, text=True, timeout=60).stdout
        m = re.search(r'Version: (\S+)', out)
        return m.group(1) if m else out.strip()[:60]
    except Exception as e:
        return 'unknown'

def run(gen_path, modules, rlimit=30, threads=16, seed=None, cache_dir=None, extra=None, timeout=3000, multiple_errors=20):
    """returns dict: cmd, wall_s, diags (list of error dicts), verified, errors, func_times, ok_run(bool), raw_err"""
    text = open(gen_path, 'rb').read()
    cmd = [VERUS, os.path.basename(gen_path), '--error-format=json', '--output-json', '--time',
           '--multiple-errors', str(multiple_errors), '--rlimit', str(rlimit), '--num-threads', str(threads)]
    for m in modules:
        cmd += ['--verify-module', m]
    if seed is not None:
        cmd += ['--smt-option', 'smt.random_seed=%d' % seed, '--smt-option', 'sat.random_seed=%d' % seed]
    if extra: cmd += extra
    key = hashlib.sha256(text + b'\0' + ' '.join(cmd[1:]).encode()).hexdigest()
    cpath = os.path.join(cache_dir, key + '.json') if cache_dir else None
    if cpath and os.path.exists(cpath):
        r = json.load(open(cpath))
        r['cache'] = 'hit'
        return r
    t0 = time.time()
    try:
        p = subprocess.run(cmd, cwd=os.path.dirname(gen_path), capture_output=True, text=True, timeout=timeout)
        out, err, rc = p.stdout, p.stderr, p.returncode
    except subprocess.TimeoutExpired as e:
        out, err, rc = '', 'TIMEOUT after %ds' % timeout, -9
    wall = time.time() - t0
    diags = []
    for line in err.splitlines():
        line = line.strip()
        if not line.startswith('{'): continue
        try:
            d = json.loads(line)
        except Exception:
            continue
        if d.get('level') == 'error' and not d.get('message', '').startswith('aborting due to'):
            labs = []
            for sp in d.get('spans', []):
                for x in sp.get('text', []):
                    labs += LABEL_RE.findall(x['text'])
            diags.append({'message': d.get('message', ''), 'labels': list(dict.fromkeys(labs)), 'rustc_code': (d.get('code') or {}).get('code'),
                          'spans': [{'line_start': s['line_start'], 'line_end': s['line_end'], 'is_primary': s['is_primary'],
                                     'label': s.get('label'), 'text': [x['text'] for x in s.get('text', [])][:6]} for s in d.get('spans', [])],
                          'rendered': d.get('rendered', '')[:4000]})
    res = {}
    try:
        res = json.loads(out) if out.strip().startswith('{') else {}
    except Exception:
        res = {}
    vr = res.get('verification-results', {})
    times = res.get('times-ms', {})
    func_times = {}
    for mt in times.get('smt', {}).get('smt-run-module-times', []):
        for fb in mt.get('function-breakdown', []):
            func_times[fb['function']] = {'ms': fb.get('time', 0), 'rlimit': fb.get('rlimit', 0), 'success': fb.get('success')}
    r = {'cmd': ' '.join(cmd), 'wall_s': round(wall, 2), 'rc': rc, 'diags': diags,
         'verified': vr.get('verified'), 'errors': vr.get('errors'),
         'vir_error': vr.get('encountered-vir-error'),
         'smt_ms': times.get('smt', {}).get('total'), 'total_ms': times.get('total'),
         'func_times': func_times,
         # a rustc-level error (type error in spliced or mutated text) leaves `verified: 0, errors: 0` behind: that is no result
         'have_results': ('verified' in vr) and not vr.get('encountered-vir-error') and not any(d.get('rustc_code') for d in diags)
                         and not (vr.get('encountered-error') and vr.get('verified') == 0 and vr.get('errors') == 0 and diags), 'raw_err_tail': err[-3000:] if 'verified' not in vr else '',
         'cache': 'miss'}
    if cpath and r['have_results']:
        os.makedirs(cache_dir, exist_ok=True)
        json.dump(r, open(cpath, 'w'))
    return r

def classify(msg):
    for pat in UNDECIDED_PATTERNS:
        if re.search(pat, msg): return ('undecided', 'rlimit')
    for pat, kind in FAIL_PATTERNS:
        if re.search(pat, msg): return ('failed', kind)
    return ('unknown', 'other-proof')

