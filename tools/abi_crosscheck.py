#!/usr/bin/env python3
"""abi_crosscheck -- compare every row of spec/abi_layout.toml with the Elf32_*/Elf64_* typedefs of
glibc's <elf.h> as recorded in spec/abi_reference.json (field order, byte offset, width, signedness, size)."""
import os, sys, json, tomllib
ROOT = os.path.dirname(os.path.dirname(os.path.abspath(__file__)))
L = tomllib.load(open(os.path.join(ROOT, 'spec', 'abi_layout.toml'), 'rb'))
C = json.load(open(os.path.join(ROOT, 'spec', 'abi_reference.json')))['c_layouts']
bad, checked = [], 0
for name, e in L.items():
    for cls, cname in e.get('c_name', {}).items():
        rows = e.get(cls) or e.get('both')
        if cname not in C: bad.append('%s: %s not found in elf.h' % (name, cname)); continue
        ref = C[cname]
        if ref['size'] != e['size'][cls]: bad.append('%s/%s: size %d, elf.h says %d' % (name, cls, e['size'][cls], ref['size']))
        if len(rows) != len(ref['fields']): bad.append('%s/%s: %d fields, elf.h has %d' % (name, cls, len(rows), len(ref['fields']))); continue
        for r, f in zip(rows, ref['fields']):
            checked += 1
            if [r[1], r[2], r[3]] != [f[1], f[2], f[3]]:
                bad.append('%s/%s field %s: (off,width,sign)=%s, elf.h %s has %s' % (name, cls, r[0], r[1:], f[0], f[1:]))
            if r[0] != f[0] and not (r[0], f[0]) in (('d_un', 'd_val'), ('ch_reserved', 'ch_reserved')):
                bad.append('%s/%s: field name %s vs elf.h %s' % (name, cls, r[0], f[0]))
print(json.dumps({'rows_checked': checked, 'mismatches': bad}))
sys.exit(1 if bad else 0)
