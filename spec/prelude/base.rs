// Specification vocabulary shared by all modules (DESIGN.md section 4).
// Written from the gABI / GNU format texts and the property statements, not from the code.

use vstd::string::StringSliceAdditionalSpecFns;
use vstd::std_specs::cmp::PartialEqSpec;
#[verifier::external_type_specification]
#[verifier::external_body]
pub struct ExTryFromSliceError(core::array::TryFromSliceError);

#[verifier::external_type_specification]
#[verifier::external_body]
pub struct ExUtf8Error(core::str::Utf8Error);

// ---- byte order: value of a byte string
pub open spec fn le_val(s: Seq<u8>) -> nat decreases s.len() {
    if s.len() == 0 { 0 } else { s[0] as nat + 256 * le_val(s.drop_first()) }
}
pub open spec fn be_val(s: Seq<u8>) -> nat decreases s.len() {
    if s.len() == 0 { 0 } else { be_val(s.drop_last()) * 256 + s.last() as nat }
}
pub open spec fn uval(little: bool, s: Seq<u8>) -> nat { if little { le_val(s) } else { be_val(s) } }
pub open spec fn pow256(n: nat) -> nat decreases n { if n == 0 { 1 } else { 256 * pow256((n - 1) as nat) } }
// two's complement
pub open spec fn sval(little: bool, s: Seq<u8>) -> int {
    let u = uval(little, s) as int; let m = pow256(s.len()) as int;
    if 2 * u >= m { u - m } else { u }
}
pub open spec fn read_ok(off: usize, w: nat, data: &[u8]) -> bool { off + w <= data@.len() }
pub open spec fn window(off: usize, w: nat, data: &[u8]) -> Seq<u8> { data@.subrange(off as int, off + w) }
pub open spec fn fld(little: bool, w: Seq<u8>, off: int, n: int) -> nat { uval(little, w.subrange(off, off + n)) }
pub open spec fn sfld(little: bool, w: Seq<u8>, off: int, n: int) -> int { sval(little, w.subrange(off, off + n)) }

// a field read inside a sub-buffer is the field read at the shifted offset of the whole buffer
pub proof fn lemma_fld_sub(l: bool, d: Seq<u8>, s: int, e: int, off: int, w: int)
    requires 0 <= s <= e <= d.len(), 0 <= off, 0 <= w, off + w <= e - s
    ensures fld(l, d.subrange(s, e), off, w) == fld(l, d, s + off, w), sfld(l, d.subrange(s, e), off, w) == sfld(l, d, s + off, w)
{ assert(d.subrange(s, e).subrange(off, off + w) =~= d.subrange(s + off, s + off + w)); }

// ---- A2: T::from_{le,be}_bytes (rule R2 routes the calls through these shims; contracts proved by Kani)
#[verifier::external_body]
pub fn shim_u8_from_le_bytes(b: [u8; 1]) -> (r: u8) ensures r as nat == le_val(b@) { u8::from_le_bytes(b) }
#[verifier::external_body]
pub fn shim_u8_from_be_bytes(b: [u8; 1]) -> (r: u8) ensures r as nat == be_val(b@) { u8::from_be_bytes(b) }
#[verifier::external_body]
pub fn shim_u16_from_le_bytes(b: [u8; 2]) -> (r: u16) ensures r as nat == le_val(b@) { u16::from_le_bytes(b) }
#[verifier::external_body]
pub fn shim_u16_from_be_bytes(b: [u8; 2]) -> (r: u16) ensures r as nat == be_val(b@) { u16::from_be_bytes(b) }
#[verifier::external_body]
pub fn shim_u32_from_le_bytes(b: [u8; 4]) -> (r: u32) ensures r as nat == le_val(b@) { u32::from_le_bytes(b) }
#[verifier::external_body]
pub fn shim_u32_from_be_bytes(b: [u8; 4]) -> (r: u32) ensures r as nat == be_val(b@) { u32::from_be_bytes(b) }
#[verifier::external_body]
pub fn shim_u64_from_le_bytes(b: [u8; 8]) -> (r: u64) ensures r as nat == le_val(b@) { u64::from_le_bytes(b) }
#[verifier::external_body]
pub fn shim_u64_from_be_bytes(b: [u8; 8]) -> (r: u64) ensures r as nat == be_val(b@) { u64::from_be_bytes(b) }
#[verifier::external_body]
pub fn shim_i32_from_le_bytes(b: [u8; 4]) -> (r: i32) ensures r as int == sval(true, b@) { i32::from_le_bytes(b) }
#[verifier::external_body]
pub fn shim_i32_from_be_bytes(b: [u8; 4]) -> (r: i32) ensures r as int == sval(false, b@) { i32::from_be_bytes(b) }
#[verifier::external_body]
pub fn shim_i64_from_le_bytes(b: [u8; 8]) -> (r: i64) ensures r as int == sval(true, b@) { i64::from_le_bytes(b) }
#[verifier::external_body]
pub fn shim_i64_from_be_bytes(b: [u8; 8]) -> (r: i64) ensures r as int == sval(false, b@) { i64::from_be_bytes(b) }

// ---- A3: <[T; N]>::try_from(&[T])
pub assume_specification<'a, T: Copy, const N: usize>[ <[T; N] as TryFrom<&'a [T]>>::try_from ](s: &[T]) -> (r: Result<[T; N], core::array::TryFromSliceError>)
    ensures s@.len() == N ==> (r is Ok && r->Ok_0@ == s@),
            s@.len() != N ==> r is Err;

// ---- A16: `!=` between a slice reference and an array is the negation of `==` (core defines both; vstd specifies only eq)
pub assume_specification<'a, T: PartialEq<U>, U, const N: usize> [ <&'a [T] as PartialEq<[U; N]>>::ne ] (a: &&'a [T], b: &[U; N]) -> (r: bool)
    ensures r == !((*a).eq_spec(b));
pub proof fn lemma_slice_array_eq_u8<const N: usize>(a: &[u8], b: &[u8; N])
    ensures a.eq_spec(b) == (a@ == b@)
{
    assert(a.eq_spec(b) == (a@.len() == N && forall|i: int| 0 <= i < N ==> (#[trigger] a@[i]).eq_spec(&b@[i])));
    assert(forall|x: u8, y: u8| x.eq_spec(&y) == (x == y));
    if a.eq_spec(b) { assert(a@ =~= b@); }
}

// ---- A4: u32::checked_shr
// R14: pins the error type of a beta-reduced helper body (the helper's declared return type is Result<T, ParseError>)
pub fn r14_res<T>(r: Result<T, crate::parse::ParseError>) -> (o: Result<T, crate::parse::ParseError>) ensures o == r { r }
// A18: Range::is_empty is `!(start < end)`
pub uninterp spec fn range_is_empty_spec<Idx>(r: &core::ops::Range<Idx>) -> bool;
pub assume_specification<Idx>[core::ops::Range::<Idx>::is_empty](r: &core::ops::Range<Idx>) -> (b: bool) where Idx: core::cmp::PartialOrd + core::cmp::PartialOrd,
    ensures b == range_is_empty_spec(r);
// A19: bool::then_some (not called by the pinned tree; lets changed code that uses it be decided)
pub assume_specification<T>[ bool::then_some ](b: bool, t: T) -> (r: Option<T>)
    ensures r == (if b { Some(t) } else { None::<T> });
pub assume_specification [u32::checked_shr] (x: u32, n: u32) -> (r: Option<u32>)
    ensures n < 32 ==> r == Some(x >> n), n >= 32 ==> r is None;

// ---- A5: slice::Iter::position
pub assume_specification<'a, T, P: FnMut(&'a T) -> bool> [<core::slice::Iter<'a, T> as Iterator>::position] (it: &mut core::slice::Iter<'a, T>, pred: P) -> (r: Option<usize>)
    where core::slice::Iter<'a, T>: Sized
    requires forall|i: int| 0 <= i < old(it).remaining().len() ==> call_requires(pred, (#[trigger] old(it).remaining()[i],)),
    ensures match r {
        Some(k) => k < old(it).remaining().len() && call_ensures(pred, (old(it).remaining()[k as int],), true)
            && forall|j: int| 0 <= j < k ==> call_ensures(pred, (#[trigger] old(it).remaining()[j],), false),
        None => forall|j: int| 0 <= j < old(it).remaining().len() ==> call_ensures(pred, (#[trigger] old(it).remaining()[j],), false),
    };

// ---- A7: core::str::from_utf8 (validity itself uninterpreted)
pub assume_specification [core::str::from_utf8] (v: &[u8]) -> (r: Result<&str, core::str::Utf8Error>)
    ensures r is Ok <==> vstd::utf8::valid_utf8(v@),
            r is Ok ==> r->Ok_0.spec_bytes() == v@;

// ---- NUL-terminated strings inside a byte table (C15): t is THE string at off iff it is the
// NUL-free run d[off, off+|t|) and d[off+|t|] is a NUL inside the table.
pub open spec fn is_strz(d: Seq<u8>, off: int, t: Seq<u8>) -> bool {
    &&& 0 <= off && off + t.len() < d.len() && t == d.subrange(off, off + t.len()) && d[off + t.len()] == 0
    &&& forall|k: int| 0 <= k < t.len() ==> t[k] != 0
}
pub open spec fn strz_ok(d: Seq<u8>, off: int) -> bool { 0 <= off < d.len() && exists|k: int| off <= k < d.len() && d[k] == 0 }
pub open spec fn strz(d: Seq<u8>, off: int) -> Seq<u8> { choose|t: Seq<u8>| is_strz(d, off, t) }
pub proof fn lemma_strz_unique(d: Seq<u8>, off: int, a: Seq<u8>, b: Seq<u8>)
    requires is_strz(d, off, a), is_strz(d, off, b)
    ensures a == b
{
    if a.len() < b.len() { assert(b[a.len() as int] == d[off + a.len()]); assert(false); }
    if b.len() < a.len() { assert(a[b.len() as int] == d[off + b.len()]); assert(false); }
    assert(a =~= b);
}
// the run is the LONGEST NUL-free run starting at off: it cannot be extended
pub proof fn lemma_strz_is_longest(d: Seq<u8>, off: int, t: Seq<u8>, n: int)
    requires is_strz(d, off, t), 0 <= n, off + n <= d.len(), forall|k: int| off <= k < off + n ==> d[k] != 0
    ensures n <= t.len()
{
    if n > t.len() { assert(d[off + t.len()] != 0); }
}

// two strs have the same bytes iff they have the same characters (UTF-8 encoding is injective: vstd's round-trip lemma)
pub proof fn lemma_str_bytes_eq(a: &str, b: &str)
    ensures (a.spec_bytes() == b.spec_bytes()) == (a@ == b@)
{
    assert(a.spec_bytes() == vstd::utf8::encode_utf8(a@));
    assert(b.spec_bytes() == vstd::utf8::encode_utf8(b@));
    vstd::utf8::encode_utf8_decode_utf8(a@); vstd::utf8::encode_utf8_decode_utf8(b@);
}
// the name stored at offset `off` of a string table is exactly `name` (valid UTF-8, same bytes)
pub open spec fn name_is(strs: Seq<u8>, off: int, name: &str) -> bool {
    strz_ok(strs, off) && vstd::utf8::valid_utf8(strz(strs, off)) && strz(strs, off) == name.spec_bytes()
}

// ---- A1: every slice has at most isize::MAX elements (language invariant)
pub mod ax { use vstd::prelude::*; use vstd::std_specs::cmp::PartialEqSpec;
pub broadcast axiom fn axiom_range_is_empty_usize(r: &core::ops::Range<usize>)
    ensures #[trigger] crate::vp::range_is_empty_spec::<usize>(r) == !(r.start < r.end);
pub broadcast proof fn lemma_subrange_subrange(s: Seq<u8>, a: int, b: int, c: int, d: int)
    requires 0 <= a <= b <= s.len(), 0 <= c <= d <= b - a
    ensures #[trigger] s.subrange(a, b).subrange(c, d) == s.subrange(a + c, a + d)
{ assert(s.subrange(a, b).subrange(c, d) =~= s.subrange(a + c, a + d)); }
pub broadcast proof fn lemma_slice_ext(a: &[u8], b: &[u8])
    requires a@ == b@
    ensures #![trigger a@, b@] a == b
{ assert(a@ =~= b@); }
// `a == b` on byte slices (exec) is equality of contents
pub broadcast proof fn lemma_slice_eq_u8(a: &[u8], b: &[u8])
    ensures #[trigger] a.eq_spec(b) == (a@ == b@)
{
    assert(a.eq_spec(b) == (a@.len() == b@.len() && forall|i: int| 0 <= i < a@.len() ==> (#[trigger] a@[i]).eq_spec(&b@[i])));
    assert(forall|x: u8, y: u8| x.eq_spec(&y) == (x == y));
    if a.eq_spec(b) { assert(a@ =~= b@); }
}
#[verifier::external_body]
pub broadcast proof fn axiom_slice_len_bound(s: &[u8]) ensures #[trigger] s@.len() <= isize::MAX {}
}

// ---- one-byte strings have the same value in both orders
pub broadcast proof fn lemma_one_byte(s: Seq<u8>)
    requires s.len() == 1
    ensures #[trigger] le_val(s) == s[0] as nat, #[trigger] be_val(s) == s[0] as nat
{
    reveal_with_fuel(le_val, 2); reveal_with_fuel(be_val, 2);
    assert(s.drop_first().len() == 0); assert(s.drop_last().len() == 0);
}

// ---- arithmetic lemmas
// body-independent facts about the bloom-filter test and power-of-two divisions written with shifts / masks
pub proof fn lemma_bloom_bit_forms()
    ensures
        forall|f: u64, k: u32| k < 64 ==> ((#[trigger] ((f >> k) & 1u64)) == 0u64 <==> (f & (1u64 << k)) == 0u64),
        forall|h: u32| (#[trigger] (h >> 5u32)) == h / 32u32,
        forall|h: u32| (#[trigger] (h >> 6u32)) == h / 64u32,
        forall|h: u32| (#[trigger] (h & 31u32)) == h % 32u32,
        forall|h: u32| (#[trigger] (h & 63u32)) == h % 64u32,
{
    assert forall|f: u64, k: u32| k < 64 implies ((#[trigger] ((f >> k) & 1u64)) == 0u64 <==> (f & (1u64 << k)) == 0u64) by {
        assert(k < 64 ==> ((((f >> k) & 1u64) == 0u64) <==> ((f & (1u64 << k)) == 0u64))) by (bit_vector);
    }
    assert forall|h: u32| (#[trigger] (h >> 5u32)) == h / 32u32 by { assert((h >> 5u32) == h / 32u32) by (bit_vector); }
    assert forall|h: u32| (#[trigger] (h >> 6u32)) == h / 64u32 by { assert((h >> 6u32) == h / 64u32) by (bit_vector); }
    assert forall|h: u32| (#[trigger] (h & 31u32)) == h % 32u32 by { assert((h & 31u32) == h % 32u32) by (bit_vector); }
    assert forall|h: u32| (#[trigger] (h & 63u32)) == h % 64u32 by { assert((h & 63u32) == h % 64u32) by (bit_vector); }
}

// body-independent facts: a narrowing cast is the mask (r_info splits written as `as u32` / `as u8`)
pub proof fn lemma_trunc_forms()
    ensures
        forall|x: u64| (#[trigger] (x as u32)) == (x & 0xffff_ffffu64) as u32,
        forall|x: u32| (#[trigger] (x as u8)) == (x & 0xffu32) as u8,
        forall|x: u32| ((#[trigger] (x as u8)) as u32) == (x & 0xffu32),
        forall|x: u64| ((#[trigger] (x as u32)) as u64) == (x & 0xffff_ffffu64),
{
    assert forall|x: u64| (#[trigger] (x as u32)) == (x & 0xffff_ffffu64) as u32 by { assert((x as u32) == (x & 0xffff_ffffu64) as u32) by (bit_vector); }
    assert forall|x: u32| (#[trigger] (x as u8)) == (x & 0xffu32) as u8 by { assert((x as u8) == (x & 0xffu32) as u8) by (bit_vector); }
    assert forall|x: u32| ((#[trigger] (x as u8)) as u32) == (x & 0xffu32) by { assert(((x as u8) as u32) == (x & 0xffu32)) by (bit_vector); }
    assert forall|x: u64| ((#[trigger] (x as u32)) as u64) == (x & 0xffff_ffffu64) by { assert(((x as u32) as u64) == (x & 0xffff_ffffu64)) by (bit_vector); }
}

// body-independent facts: a left shift of a u32 is the wrapping multiplication by the power of two (hash steps written with shifts)
pub proof fn lemma_shl5(h: u32)
    ensures (h << 5u32) as int == (h as int * 32) % 0x1_0000_0000
{
    let w: u64 = (h as u64) << 5u64;
    assert(w == (h as u64) * 32) by (bit_vector) requires w == (h as u64) << 5u64;
    assert((h << 5u32) as u64 == w & 0xffff_ffffu64) by (bit_vector) requires w == (h as u64) << 5u64;
    assert(w & 0xffff_ffffu64 == w % 0x1_0000_0000u64) by (bit_vector);
}
pub proof fn lemma_shl4(h: u32)
    ensures (h << 4u32) as int == (h as int * 16) % 0x1_0000_0000
{
    let w: u64 = (h as u64) << 4u64;
    assert(w == (h as u64) * 16) by (bit_vector) requires w == (h as u64) << 4u64;
    assert((h << 4u32) as u64 == w & 0xffff_ffffu64) by (bit_vector) requires w == (h as u64) << 4u64;
    assert(w & 0xffff_ffffu64 == w % 0x1_0000_0000u64) by (bit_vector);
}
pub proof fn lemma_shl_forms()
    ensures
        forall|h: u32| (#[trigger] (h << 5u32)) as int == (h as int * 32) % 0x1_0000_0000,
        forall|h: u32| (#[trigger] (h << 4u32)) as int == (h as int * 16) % 0x1_0000_0000,
{
    assert forall|h: u32| (#[trigger] (h << 5u32)) as int == (h as int * 32) % 0x1_0000_0000 by { lemma_shl5(h); }
    assert forall|h: u32| (#[trigger] (h << 4u32)) as int == (h as int * 16) % 0x1_0000_0000 by { lemma_shl4(h); }
}

// body-independent facts about equivalent formulations of the GNU hash comparison (bit 0 ignored) and of the stop-bit test
pub proof fn lemma_gnu_bit_forms()
    ensures
        forall|a: u32, b: u32| (#[trigger] ((a ^ b) >> 1u32) == 0u32) <==> ((a | 1u32) == (b | 1u32)),
        forall|x: u32| ((#[trigger] (x % 2u32)) == 1u32) <==> ((x & 1u32) != 0u32),
        forall|x: u32| ((#[trigger] (x & 1u32)) == 1u32) <==> ((x & 1u32) != 0u32),
{
    assert forall|a: u32, b: u32| (#[trigger] ((a ^ b) >> 1u32) == 0u32) <==> ((a | 1u32) == (b | 1u32)) by {
        assert((((a ^ b) >> 1u32) == 0u32) <==> ((a | 1u32) == (b | 1u32))) by (bit_vector);
    }
    assert forall|x: u32| ((#[trigger] (x % 2u32)) == 1u32) <==> ((x & 1u32) != 0u32) by {
        assert(((x % 2u32) == 1u32) <==> ((x & 1u32) != 0u32)) by (bit_vector);
    }
    assert forall|x: u32| ((#[trigger] (x & 1u32)) == 1u32) <==> ((x & 1u32) != 0u32) by {
        assert(((x & 1u32) == 1u32) <==> ((x & 1u32) != 0u32)) by (bit_vector);
    }
}

// body-independent facts about the usual formulations of "round x up to a multiple of a" (so that equivalent rewrites of a padding step verify)
pub proof fn lemma_pad_form_mod(x: int, a: int)
    requires a > 0, x >= 0
    ensures (a - x % a) % a == (if x % a > 0 { a - x % a } else { 0 })
{
    vstd::arithmetic::div_mod::lemma_mod_bound(x, a);
    if x % a > 0 { vstd::arithmetic::div_mod::lemma_small_mod((a - x % a) as nat, a as nat); }
    else { vstd::arithmetic::div_mod::lemma_mod_self_0(a); }
}
pub proof fn lemma_pad_form_roundup(x: int, a: int)
    requires a > 0, x >= 0
    ensures ((x + a - 1) / a) * a == (if x % a > 0 { x + (a - x % a) } else { x })
{
    vstd::arithmetic::div_mod::lemma_fundamental_div_mod(x, a);
    vstd::arithmetic::div_mod::lemma_mod_bound(x, a);
    let q = x / a; let r = x % a;
    assert(x == a * q + r);
    if r > 0 {
        // x + a - 1 = a*(q+1) + (r-1)
        assert(x + a - 1 == (q + 1) * a + (r - 1)) by (nonlinear_arith) requires x == a * q + r;
        vstd::arithmetic::div_mod::lemma_fundamental_div_mod_converse(x + a - 1, a, q + 1, r - 1);
        assert((q + 1) * a == x + (a - r)) by (nonlinear_arith) requires x == a * q + r;
    } else {
        assert(x + a - 1 == q * a + (a - 1)) by (nonlinear_arith) requires x == a * q + r, r == 0;
        vstd::arithmetic::div_mod::lemma_fundamental_div_mod_converse(x + a - 1, a, q, a - 1);
        assert(q * a == x) by (nonlinear_arith) requires x == a * q + r, r == 0;
    }
}
pub proof fn lemma_pad_forms()
    ensures
        forall|x: int, a: int| a > 0 && x >= 0 ==> #[trigger] ((a - x % a) % a) == (if x % a > 0 { a - x % a } else { 0 }),
        forall|x: int, a: int| a > 0 && x >= 0 ==> (#[trigger] ((x + a - 1) / a)) * a == (if x % a > 0 { x + (a - x % a) } else { x }),
{
    assert forall|x: int, a: int| a > 0 && x >= 0 implies #[trigger] ((a - x % a) % a) == (if x % a > 0 { a - x % a } else { 0 }) by { lemma_pad_form_mod(x, a); }
    assert forall|x: int, a: int| a > 0 && x >= 0 implies (#[trigger] ((x + a - 1) / a)) * a == (if x % a > 0 { x + (a - x % a) } else { x }) by { lemma_pad_form_roundup(x, a); }
}

pub proof fn lemma_index_in_table(i: nat, sz: nat, len: nat)
    requires sz > 0
    ensures i < len / sz <==> i * sz + sz <= len
{
    vstd::arithmetic::div_mod::lemma_fundamental_div_mod(len as int, sz as int);
    vstd::arithmetic::div_mod::lemma_mod_bound(len as int, sz as int);
    let q = len / sz;
    if i < q {
        assert((i + 1) * sz <= q * sz) by (nonlinear_arith) requires i + 1 <= q, sz > 0;
        assert((i + 1) * sz == i * sz + sz) by (nonlinear_arith);
        assert(q * sz == sz * q) by (nonlinear_arith);
    } else {
        assert(q * sz <= i * sz) by (nonlinear_arith) requires q <= i, sz > 0;
        assert(q * sz == sz * q) by (nonlinear_arith);
    }
}
