// ---- A8: environment model for a Read + Seek stream (std unit only).
// A stream has fixed contents, a cursor, a log of read_exact requests and a `healthy` flag.
// EVERY call may fail (no healthy assumed) unless a clause says otherwise: this is what lets the
// cache invariant cover all fault schedules (C17).
#[verifier::external_type_specification]
#[verifier::external_body]
pub struct ExIoError(std::io::Error);
#[verifier::external_type_specification]
pub struct ExSeekFrom(std::io::SeekFrom);

pub uninterp spec fn stream_contents<R: ?Sized>(r: &R) -> Seq<u8>;
pub uninterp spec fn stream_pos<R: ?Sized>(r: &R) -> nat;
pub uninterp spec fn io_log<R: ?Sized>(r: &R) -> Seq<(nat, nat)>;
pub uninterp spec fn healthy<R: ?Sized>(r: &R) -> bool;

#[verifier::external_trait_specification]
pub trait ExRead {
    type ExternalTraitSpecificationFor: std::io::Read;
    fn read(&mut self, buf: &mut [u8]) -> (r: std::io::Result<usize>)
        ensures
            stream_contents(final(self)) == stream_contents(old(self)),
            final(buf)@.len() == old(buf)@.len(),
            r is Ok ==> r->Ok_0 <= old(buf)@.len() && stream_pos(old(self)) + r->Ok_0 <= stream_contents(old(self)).len()
                && final(buf)@.subrange(0, r->Ok_0 as int) == stream_contents(old(self)).subrange(stream_pos(old(self)) as int, (stream_pos(old(self)) + r->Ok_0) as int)
                && stream_pos(final(self)) == stream_pos(old(self)) + r->Ok_0;
    fn read_exact(&mut self, buf: &mut [u8]) -> (r: std::io::Result<()>)
        ensures
            io_log(final(self)) == io_log(old(self)).push((stream_pos(old(self)), old(buf)@.len() as nat)),
            healthy(old(self)) ==> healthy(final(self)),
            healthy(old(self)) && stream_pos(old(self)) + old(buf)@.len() <= stream_contents(old(self)).len() ==> r is Ok,
            stream_contents(final(self)) == stream_contents(old(self)),
            final(buf)@.len() == old(buf)@.len(),
            r is Ok ==> stream_pos(old(self)) + old(buf)@.len() <= stream_contents(old(self)).len()
                && final(buf)@ == stream_contents(old(self)).subrange(stream_pos(old(self)) as int, (stream_pos(old(self)) + old(buf)@.len()) as int)
                && stream_pos(final(self)) == stream_pos(old(self)) + old(buf)@.len();
}
#[verifier::external_trait_specification]
pub trait ExSeek {
    type ExternalTraitSpecificationFor: std::io::Seek;
    fn seek(&mut self, pos: std::io::SeekFrom) -> (r: std::io::Result<u64>)
        ensures
            io_log(final(self)) == io_log(old(self)),
            healthy(old(self)) ==> healthy(final(self)) && (pos is Start || pos is End ==> r is Ok),
            stream_contents(final(self)) == stream_contents(old(self)),
            r is Ok ==> match pos {
                std::io::SeekFrom::Start(n) => stream_pos(final(self)) == n && r->Ok_0 == n,
                std::io::SeekFrom::End(d) => stream_pos(final(self)) == stream_contents(old(self)).len() + d && r->Ok_0 == stream_contents(old(self)).len() + d,
                std::io::SeekFrom::Current(d) => stream_pos(final(self)) == stream_pos(old(self)) + d && r->Ok_0 == stream_pos(old(self)) + d,
            };
}

// ---- A9
pub assume_specification<T, A: std::alloc::Allocator> [std::vec::Vec::<T, A>::into_boxed_slice] (v: std::vec::Vec<T, A>) -> (b: std::boxed::Box<[T], A>)
    ensures b@ == v@;
// total number of bytes requested from the reader so far (sum of the lengths in the I/O log)
pub open spec fn log_sum(l: Seq<(nat, nat)>) -> nat decreases l.len() { if l.len() == 0 { 0 } else { log_sum(l.drop_last()) + l.last().1 } }
pub mod axs { use vstd::prelude::*;
pub broadcast proof fn lemma_log_sum_push(l: Seq<(nat, nat)>, x: (nat, nat))
    ensures #[trigger] crate::vp::log_sum(l.push(x)) == crate::vp::log_sum(l) + x.1
{ assert(l.push(x).drop_last() =~= l); }
#[verifier::external_body]
pub broadcast proof fn axiom_tuple_key_model()
    ensures #[trigger] vstd::std_specs::hash::obeys_key_model::<(usize, usize)>() {}
}
