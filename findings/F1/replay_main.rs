fn main() {
    let short = [0x7fu8, b'E', b'L', b'F', 1, 1];
    let r = elf::file::parse_ident::<elf::endian::AnyEndian>(&short);
    println!("{:?}", r.is_ok());
}
