// Replay of finding F2 (C01, 32-bit targets): run with
//   cargo +nightly miri run --target i686-unknown-linux-gnu
use elf::endian::LittleEndian;
use elf::file::Class;
use elf::gnu_symver::{VerDefIterator, VerNeedIterator};
fn main() {
    // two verdef records; the second has vd_next = 0xFFFFFFFF: offset + vd_next overflows a 32-bit usize,
    // the iterator sets count = 0 and then executes `count -= 1`
    let mut d = vec![0u8; 40];
    d[0] = 1; d[16] = 20;            // rec0: version 1, vd_next = 20
    d[20] = 1; d[36] = 0xff; d[37] = 0xff; d[38] = 0xff; d[39] = 0xff; // rec1: vd_next = u32::MAX
    let it = VerDefIterator::new(LittleEndian, Class::ELF32, 3, 0, &d);
    println!("usize bits = {}, verdef items = {}", usize::BITS, it.count());
    // verneed: vn_aux = 0xFFFFFFFF on a record at offset 16: `self.offset + vn_aux` overflows
    let mut n = vec![0u8; 32];
    n[0] = 1; n[12] = 16;                                  // rec0 at 0: vn_next = 16
    n[16] = 1; n[24] = 0xff; n[25] = 0xff; n[26] = 0xff; n[27] = 0xff;   // rec1 at 16: vn_aux = u32::MAX
    let it = VerNeedIterator::new(LittleEndian, Class::ELF32, 2, 0, &n);
    println!("verneed items = {}", it.count());
}
