use elf_verif_replay::*;
fn main() {
    // case #24 of the family stream_oracle::enumerate(150000, 20261003) -- regenerated deterministically; its contents are in the replay file
    let cases = stream_oracle::enumerate(150000, 20261003);
    let c = &cases[24];
    match slice_oracle::check_c20_file(&c.file[..c.cut.min(c.file.len())]) {
        Ok(()) => println!("replay: the real crate behaves as specified on this input"),
        Err(e) => { println!("REPLAY FAILS on the real crate: {}", e); std::process::exit(1); }
    }
}
