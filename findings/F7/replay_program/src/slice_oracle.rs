//! Native bounded oracles for slice-parser functions Kani cannot handle within the budget (C20 lookups, C13 resolution).
//! Used ONLY as replay search after Verus rejected or could not decide an obligation; never produces an OK.
use elf::endian::AnyEndian;
use elf::file::Class;
use elf::ElfBytes;

struct Lcg(u64);
impl Lcg { fn next(&mut self, n: u64) -> u64 { self.0 = self.0.wrapping_mul(6364136223846793005).wrapping_add(1442695040888963407); (self.0 >> 33) % n } }

// ------------------------------------------------------------------------------------------------ C20
/// C20 over one file of the stream family (`stream_oracle::enumerate`): alternative access paths agree
pub fn check_c20_file(b: &[u8]) -> Result<(), String> {
    let e = match ElfBytes::<AnyEndian>::minimal_parse(b) { Ok(e) => e, Err(_) => return Ok(()) };
    let shdrs: Vec<_> = e.section_headers().map(|t| t.iter().collect()).unwrap_or_default();
    // ---- by name: the first section whose name string equals the query (manual scan over the same tables)
    if let Ok((Some(tab), strs)) = e.section_headers_with_strtab() {
        for name in [".a", "b", "zz", "", "qr", "c"] {
            let want = match &strs { None => None, Some(s) => tab.iter().find(|h| s.get(h.sh_name as usize).map_or(false, |n| n == name)) };
            match e.section_header_by_name(name) {
                Ok(got) => if got != want { return Err(format!("C20: section_header_by_name({:?}) == {:?}, a manual scan finds {:?}", name, got, want)); },
                Err(x) => return Err(format!("C20: section_header_by_name({:?}) is Err({:?}) although the section headers and the name table are readable", name, x)),
            }
        }
    }
    // ---- typed views: refused on a type mismatch, otherwise exactly the entries decodable from section_data's bytes
    for (i, sh) in shdrs.iter().enumerate() {
        if sh.sh_flags & 0x800 != 0 { continue; }
        let raw = e.section_data(sh).map(|(d, _)| d);
        macro_rules! view { ($call:expr, $ty:expr, $what:expr, $render:expr, $decode:expr) => {
            match ($call, sh.sh_type == $ty) {
                (Ok(_), false) => return Err(format!("C20: {} of section {} (sh_type {}) is Ok although the type does not match", $what, i, sh.sh_type)),
                (Ok(v), true) => if let Ok(d) = raw { if $render(v) != $decode(d) { return Err(format!("C20: {} of section {} differs from the entries decodable from its raw bytes", $what, i)); } },
                (Err(_), true) => if raw.is_ok() { return Err(format!("C20: {} of section {} is an error although its type matches and section_data succeeds", $what, i)); },
                (Err(_), false) => {}
            } } }
        view!(e.section_data_as_strtab(sh), 3, "section_data_as_strtab", |s: elf::string_table::StringTable| (s.get_raw(0).ok().map(|x| x.to_vec()), s.get_raw(1).ok().map(|x| x.to_vec())),
              |d: &[u8]| { let s = elf::string_table::StringTable::new(d); (s.get_raw(0).ok().map(|x| x.to_vec()), s.get_raw(1).ok().map(|x| x.to_vec())) });
        view!(e.section_data_as_rels(sh), 9, "section_data_as_rels", |it: elf::relocation::RelIterator<AnyEndian>| format!("{:?}", it.collect::<Vec<_>>()),
              |d: &[u8]| format!("{:?}", elf::relocation::RelIterator::new(e.ehdr.endianness, e.ehdr.class, d).collect::<Vec<_>>()));
        view!(e.section_data_as_relas(sh), 4, "section_data_as_relas", |it: elf::relocation::RelaIterator<AnyEndian>| format!("{:?}", it.collect::<Vec<_>>()),
              |d: &[u8]| format!("{:?}", elf::relocation::RelaIterator::new(e.ehdr.endianness, e.ehdr.class, d).collect::<Vec<_>>()));
    }
    // ---- one-pass discovery against the targeted accessors, for objects with at most one section of each kind
    let count = |ty: u32| shdrs.iter().filter(|h| h.sh_type == ty).count();
    if [2u32, 11, 6, 5, 0x6ffffff6].iter().all(|t| count(*t) <= 1) && shdrs.iter().all(|h| h.sh_flags & 0x800 == 0) {
        if let Ok(c) = e.find_common_data() {
            let render = |t: &Option<elf::symbol::SymbolTable<AnyEndian>>, s: &Option<elf::string_table::StringTable>| format!("{:?}", (t.as_ref().map(|t| t.iter().collect::<Vec<_>>()), s.as_ref().map(|s| (s.get_raw(0).ok().map(|x| x.to_vec()), s.get_raw(1).ok().map(|x| x.to_vec())))));
            fn split<'a>(o: Option<(elf::symbol::SymbolTable<'a, AnyEndian>, elf::string_table::StringTable<'a>)>) -> (Option<elf::symbol::SymbolTable<'a, AnyEndian>>, Option<elf::string_table::StringTable<'a>>) { match o { Some((t, s)) => (Some(t), Some(s)), None => (None, None) } }
            match e.symbol_table() { Ok(o) => { let (t, s) = split(o); if render(&t, &s) != render(&c.symtab, &c.symtab_strs) { return Err(format!("C20: find_common_data and symbol_table() disagree: {} / {}", render(&c.symtab, &c.symtab_strs), render(&t, &s))); } }
                                     Err(x) => return Err(format!("C20: find_common_data succeeds but symbol_table() is Err({:?})", x)) }
            match e.dynamic_symbol_table() { Ok(o) => { let (t, s) = split(o); if render(&t, &s) != render(&c.dynsyms, &c.dynsyms_strs) { return Err(format!("C20: find_common_data and dynamic_symbol_table() disagree: {} / {}", render(&c.dynsyms, &c.dynsyms_strs), render(&t, &s))); } }
                                             Err(x) => return Err(format!("C20: find_common_data succeeds but dynamic_symbol_table() is Err({:?})", x)) }
            match e.dynamic() { Ok(o) => { let a = format!("{:?}", o.map(|t| t.iter().collect::<Vec<_>>())); let b2 = format!("{:?}", c.dynamic.map(|t| t.iter().collect::<Vec<_>>())); if a != b2 { return Err(format!("C20: find_common_data and dynamic() disagree: {} / {}", b2, a)); } }
                                Err(x) => return Err(format!("C20: find_common_data succeeds but dynamic() is Err({:?})", x)) }
        }
    }
    Ok(())
}

// ------------------------------------------------------------------------------------------------ C13
#[derive(Clone, Debug)]
pub struct SymverCase { pub versym: Vec<u8>, pub need: Vec<u8>, pub def: Vec<u8>, pub strs: Vec<u8>, pub need_count: u64, pub def_count: u64, pub little: bool }

fn uv(little: bool, b: &[u8]) -> u64 { let mut v = 0u64; if little { for i in (0..b.len()).rev() { v = (v << 8) | b[i] as u64; } } else { for i in 0..b.len() { v = (v << 8) | b[i] as u64; } } v }
fn strz(t: &[u8], off: u64) -> Option<&str> { let o = off as usize; if t.is_empty() || o >= t.len() { return None; } let k = t[o..].iter().position(|&b| b == 0)?; core::str::from_utf8(&t[o..o + k]).ok() }

/// reference resolution written from the GNU symbol-versioning description: records linked by their next/aux offsets,
/// iteration bounded by the declared counts and ended by a zero link
fn ref_requirement(c: &SymverCase, idx: u16) -> Result<Option<(String, String, u32, u16)>, ()> {
    let (d, l) = (&c.need[..], c.little);
    let (mut off, mut cnt) = (0u64, c.need_count);
    while cnt > 0 && !d.is_empty() && off + 16 <= d.len() as u64 && uv(l, &d[off as usize..off as usize + 2]) == 1 {
        let o = off as usize;
        let (vn_cnt, vn_file, vn_aux, vn_next) = (uv(l, &d[o + 2..o + 4]), uv(l, &d[o + 4..o + 8]), uv(l, &d[o + 8..o + 12]), uv(l, &d[o + 12..o + 16]));
        let (mut a, mut ac) = (off + vn_aux, vn_cnt);
        while ac > 0 && a + 16 <= d.len() as u64 {
            let p = a as usize;
            let (hash, flags, other, name, next) = (uv(l, &d[p..p + 4]), uv(l, &d[p + 4..p + 6]), uv(l, &d[p + 6..p + 8]), uv(l, &d[p + 8..p + 12]), uv(l, &d[p + 12..p + 16]));
            if other as u16 == idx {
                let f = strz(&c.strs, vn_file).ok_or(())?; let n = strz(&c.strs, name).ok_or(())?;
                return Ok(Some((f.to_string(), n.to_string(), hash as u32, flags as u16)));
            }
            ac -= 1; a += next; if ac > 0 && next == 0 { ac = 0; }
        }
        cnt -= 1; off += vn_next; if cnt > 0 && vn_next == 0 { cnt = 0; }
    }
    Ok(None)
}
fn ref_definition(c: &SymverCase, idx: u16) -> Option<(u32, u16, Vec<Option<String>>)> {
    let (d, l) = (&c.def[..], c.little);
    let (mut off, mut cnt) = (0u64, c.def_count);
    while cnt > 0 && !d.is_empty() && off + 20 <= d.len() as u64 && uv(l, &d[off as usize..off as usize + 2]) == 1 {
        let o = off as usize;
        let (flags, ndx, vd_cnt, hash, vd_aux, vd_next) = (uv(l, &d[o + 2..o + 4]), uv(l, &d[o + 4..o + 6]), uv(l, &d[o + 6..o + 8]), uv(l, &d[o + 8..o + 12]), uv(l, &d[o + 12..o + 16]), uv(l, &d[o + 16..o + 20]));
        if ndx as u16 == idx {
            let mut names = Vec::new();
            let (mut a, mut ac) = (off + vd_aux, vd_cnt);
            while ac > 0 && a + 8 <= d.len() as u64 {
                let p = a as usize;
                let (name, next) = (uv(l, &d[p..p + 4]), uv(l, &d[p + 4..p + 8]));
                names.push(strz(&c.strs, name).map(|s| s.to_string()));
                ac -= 1; a += next; if ac > 0 && next == 0 { ac = 0; }
            }
            return Some((hash as u32, flags as u16, names));
        }
        cnt -= 1; off += vd_next; if cnt > 0 && vd_next == 0 { cnt = 0; }
    }
    None
}
pub fn check_symver(c: &SymverCase) -> Result<(), String> {
    use elf::gnu_symver::{SymbolVersionTable, VerDefIterator, VerNeedIterator, VersionIndexTable};
    let e = if c.little { AnyEndian::Little } else { AnyEndian::Big };
    let t = SymbolVersionTable::new(VersionIndexTable::new(e, Class::ELF64, &c.versym),
        Some((VerNeedIterator::new(e, Class::ELF64, c.need_count, 0, &c.need), elf::string_table::StringTable::new(&c.strs))),
        Some((VerDefIterator::new(e, Class::ELF64, c.def_count, 0, &c.def), elf::string_table::StringTable::new(&c.strs))));
    let n = c.versym.len() / 2;
    for i in 0..n + 2 {
        let (rq, df) = (t.get_requirement(i), t.get_definition(i));
        if i >= n { if matches!(rq, Ok(Some(_))) || matches!(df, Ok(Some(_))) { return Err(format!("C13: symbol index {} is beyond the {} versym entries but a record was returned", i, n)); } continue; }
        let v = uv(c.little, &c.versym[2 * i..2 * i + 2]) as u16; let (idx, hidden) = (v & 0x7fff, v & 0x8000 != 0);
        match (rq, ref_requirement(c, idx)) {
            (Ok(Some(q)), Ok(Some((f, nm, h, fl)))) => if q.file != f || q.name != nm || q.hash != h || q.flags != fl || q.hidden != hidden { return Err(format!("C13: get_requirement({}) (versym {:#x}) == {:?}; the auxiliary record with vna_other == {} gives file {:?} name {:?} hash {:#x} flags {:#x} hidden {}", i, v, q, idx, f, nm, h, fl, hidden)); },
            (Ok(None), Ok(None)) => {}
            (Err(_), Err(())) => {}
            (got, want) => return Err(format!("C13: get_requirement({}) (versym {:#x}) == {:?}, the reference resolution gives {:?}", i, v, got.map(|o| o.map(|q| format!("{:?}", q))), want)),
        }
        match (df, ref_definition(c, idx)) {
            (Ok(Some(d)), Some((h, fl, names))) => {
                let got: Vec<Option<String>> = d.names.map(|r| r.ok().map(|s| s.to_string())).collect();
                if d.hash != h || d.flags != fl || d.hidden != hidden || got != names { return Err(format!("C13: get_definition({}) (versym {:#x}) == hash {:#x} flags {:#x} hidden {} names {:?}; the definition with vd_ndx == {} gives hash {:#x} flags {:#x} hidden {} names {:?}", i, v, d.hash, d.flags, d.hidden, got, idx, h, fl, hidden, names)); }
            }
            (Ok(None), None) => {}
            (got, want) => return Err(format!("C13: get_definition({}) (versym {:#x}) is {} but the reference resolution gives {:?}", i, v, match got { Ok(Some(_)) => "Some", Ok(None) => "None", Err(_) => "Err" }, want)),
        }
    }
    Ok(())
}
/// structured random version sections: records of version 1 with small counts, next/aux links from a small set (forward,
/// zero, past the end), versym entries that hit, miss, and carry the hidden bit
pub fn enumerate_symver(n: usize, seed: u64) -> Vec<SymverCase> {
    let mut r = Lcg(seed); let mut out = Vec::with_capacity(n);
    for _ in 0..n {
        let little = r.next(2) == 0;
        let p16 = |b: &mut Vec<u8>, o: usize, v: u64| { let x = (v as u16).to_le_bytes(); if little { b[o] = x[0]; b[o + 1] = x[1]; } else { b[o] = x[1]; b[o + 1] = x[0]; } };
        let p32 = |b: &mut Vec<u8>, o: usize, v: u64| { let x = (v as u32).to_le_bytes(); for k in 0..4 { b[o + k] = if little { x[k] } else { x[3 - k] }; } };
        let nsym = 1 + r.next(4) as usize;
        let mut versym = vec![0u8; 2 * nsym];
        for i in 0..nsym { p16(&mut versym, 2 * i, [0u64, 1, 2, 3, 4, 0x8002, 0x8003, 0x7fff, 0x8000][r.next(9) as usize]); }
        let strs: Vec<u8> = vec![0, b'l', b'i', b'b', 0, b'V', b'1', 0, b'V', b'2', 0, 0xff, b'x', 0, b'n'];
        let soff = |r: &mut Lcg| [1u64, 5, 8, 0, 11, 14, 40][r.next(7) as usize];
        let mut need = vec![0u8; [0usize, 16, 32, 48, 64, 80][r.next(6) as usize]];
        let mut o = 0usize;
        while o + 16 <= need.len() {
            p16(&mut need, o, if r.next(10) == 0 { 2 } else { 1 }); p16(&mut need, o + 2, r.next(3)); p32(&mut need, o + 4, soff(&mut r));
            p32(&mut need, o + 8, [16u64, 16, 32, 0, 200][r.next(5) as usize]); p32(&mut need, o + 12, [32u64, 16, 48, 0, 0x80000010][r.next(5) as usize]);
            if o + 32 <= need.len() { let a = o + 16; p32(&mut need, a, r.next(1 << 20)); p16(&mut need, a + 4, r.next(4)); p16(&mut need, a + 6, [2u64, 3, 4, 0x8002, 1, 0][r.next(6) as usize]); p32(&mut need, a + 8, soff(&mut r)); p32(&mut need, a + 12, [16u64, 0, 32, 1000][r.next(4) as usize]); }
            o += 32;
        }
        let mut def = vec![0u8; [0usize, 20, 28, 56, 84][r.next(5) as usize]];
        let mut o = 0usize;
        while o + 20 <= def.len() {
            p16(&mut def, o, if r.next(10) == 0 { 0 } else { 1 }); p16(&mut def, o + 2, r.next(4)); p16(&mut def, o + 4, [1u64, 2, 3, 4, 0x7fff][r.next(5) as usize]); p16(&mut def, o + 6, r.next(3));
            p32(&mut def, o + 8, r.next(1 << 20)); p32(&mut def, o + 12, [20u64, 20, 24, 0, 300][r.next(5) as usize]); p32(&mut def, o + 16, [28u64, 28, 0, 56, 20][r.next(5) as usize]);
            if o + 28 <= def.len() { p32(&mut def, o + 20, soff(&mut r)); p32(&mut def, o + 24, [8u64, 0, 28, 500][r.next(4) as usize]); }
            o += 28;
        }
        out.push(SymverCase { versym, need, def, strs, need_count: [0u64, 1, 2, 3, u64::MAX][r.next(5) as usize], def_count: [0u64, 1, 2, 3, u64::MAX][r.next(5) as usize], little });
    }
    out
}
