// Replays of findings F3, F4, F5 (C19) against the real crate.
fn main() {
    // F3: glibc <elf.h> and LLVM PowerPC64.def both define R_PPC64_TPREL16_LO = 70
    println!("R_PPC64_TPREL16_LO = {}", elf::abi::R_PPC64_TPREL16_LO);
    // F4: the symbolic name of e_machine 243 must be the identifier EM_RISCV
    println!("e_machine_to_str(EM_RISCV) = {:?}", elf::to_str::e_machine_to_str(elf::abi::EM_RISCV));
    // F5: the symbolic name of ch_type 2 must be exactly ELFCOMPRESS_ZSTD
    println!("ch_type_to_str(ELFCOMPRESS_ZSTD) = {:?}", elf::to_str::ch_type_to_str(elf::abi::ELFCOMPRESS_ZSTD));
    assert_eq!(elf::abi::R_PPC64_TPREL16_LO, 70);
    assert_eq!(elf::to_str::e_machine_to_str(elf::abi::EM_RISCV), Some("EM_RISCV"));
    assert_eq!(elf::to_str::ch_type_to_str(elf::abi::ELFCOMPRESS_ZSTD), Some("ELFCOMPRESS_ZSTD"));
}
