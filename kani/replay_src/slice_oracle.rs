//! Native bounded oracles for slice-parser functions Kani cannot handle within the budget (C20 lookups, C13 resolution).
//! Used ONLY as replay search after Verus rejected or could not decide an obligation; never produces an OK.
use elf::endian::AnyEndian;
use elf::file::Class;
use elf::ElfBytes;

fn on(p: &str) -> bool { match std::env::var("VERIF_ORACLE_PROP") { Ok(v) if !v.is_empty() && v != "C01" => v == p, _ => true } }
struct Lcg(u64);
impl Lcg { fn next(&mut self, n: u64) -> u64 { self.0 = self.0.wrapping_mul(6364136223846793005).wrapping_add(1442695040888963407); (self.0 >> 33) % n } }

// ------------------------------------------------------------------------------------------------ C20
/// C20 over one file of the stream family (`stream_oracle::enumerate`): alternative access paths agree
pub fn check_c20_file(b: &[u8]) -> Result<(), String> {
    let e = match ElfBytes::<AnyEndian>::minimal_parse(b) { Ok(e) => e, Err(_) => return Ok(()) };
    let shdrs: Vec<_> = e.section_headers().map(|t| t.iter().collect()).unwrap_or_default();
    // ---- by name: the first section whose name string equals the query (manual scan over the same tables)
    if let Ok((Some(tab), strs)) = e.section_headers_with_strtab() {
        for name in [".a", "b", "zz", "", "qr", "c"] {
            let want = match &strs { None => None, Some(s) => tab.iter().find(|h| s.get(h.sh_name as usize).map_or(false, |n| n == name)) };
            match e.section_header_by_name(name) {
                Ok(got) => if got != want { return Err(format!("C20: section_header_by_name({:?}) == {:?}, a manual scan finds {:?}", name, got, want)); },
                Err(x) => return Err(format!("C20: section_header_by_name({:?}) is Err({:?}) although the section headers and the name table are readable", name, x)),
            }
        }
    }
    // ---- typed views: refused on a type mismatch, otherwise exactly the entries decodable from section_data's bytes
    for (i, sh) in shdrs.iter().enumerate() {
        if sh.sh_flags & 0x800 != 0 { continue; }
        let raw = e.section_data(sh).map(|(d, _)| d);
        macro_rules! view { ($call:expr, $ty:expr, $what:expr, $render:expr, $decode:expr) => {
            match ($call, sh.sh_type == $ty) {
                (Ok(_), false) => return Err(format!("C20: {} of section {} (sh_type {}) is Ok although the type does not match", $what, i, sh.sh_type)),
                (Ok(v), true) => if let Ok(d) = raw { if $render(v) != $decode(d) { return Err(format!("C20: {} of section {} differs from the entries decodable from its raw bytes", $what, i)); } },
                (Err(_), true) => if raw.is_ok() { return Err(format!("C20: {} of section {} is an error although its type matches and section_data succeeds", $what, i)); },
                (Err(_), false) => {}
            } } }
        view!(e.section_data_as_strtab(sh), 3, "section_data_as_strtab", |s: elf::string_table::StringTable| (s.get_raw(0).ok().map(|x| x.to_vec()), s.get_raw(1).ok().map(|x| x.to_vec())),
              |d: &[u8]| { let s = elf::string_table::StringTable::new(d); (s.get_raw(0).ok().map(|x| x.to_vec()), s.get_raw(1).ok().map(|x| x.to_vec())) });
        view!(e.section_data_as_rels(sh), 9, "section_data_as_rels", |it: elf::relocation::RelIterator<AnyEndian>| format!("{:?}", it.collect::<Vec<_>>()),
              |d: &[u8]| format!("{:?}", elf::relocation::RelIterator::new(e.ehdr.endianness, e.ehdr.class, d).collect::<Vec<_>>()));
        view!(e.section_data_as_relas(sh), 4, "section_data_as_relas", |it: elf::relocation::RelaIterator<AnyEndian>| format!("{:?}", it.collect::<Vec<_>>()),
              |d: &[u8]| format!("{:?}", elf::relocation::RelaIterator::new(e.ehdr.endianness, e.ehdr.class, d).collect::<Vec<_>>()));
    }
    // ---- one-pass discovery against the targeted accessors, for objects with at most one section of each kind
    let count = |ty: u32| shdrs.iter().filter(|h| h.sh_type == ty).count();
    if [2u32, 11, 6, 5, 0x6ffffff6].iter().all(|t| count(*t) <= 1) && shdrs.iter().all(|h| h.sh_flags & 0x800 == 0) {
        if let Ok(c) = e.find_common_data() {
            let render = |t: &Option<elf::symbol::SymbolTable<AnyEndian>>, s: &Option<elf::string_table::StringTable>| format!("{:?}", (t.as_ref().map(|t| t.iter().collect::<Vec<_>>()), s.as_ref().map(|s| (s.get_raw(0).ok().map(|x| x.to_vec()), s.get_raw(1).ok().map(|x| x.to_vec())))));
            fn split<'a>(o: Option<(elf::symbol::SymbolTable<'a, AnyEndian>, elf::string_table::StringTable<'a>)>) -> (Option<elf::symbol::SymbolTable<'a, AnyEndian>>, Option<elf::string_table::StringTable<'a>>) { match o { Some((t, s)) => (Some(t), Some(s)), None => (None, None) } }
            match e.symbol_table() { Ok(o) => { let (t, s) = split(o); if render(&t, &s) != render(&c.symtab, &c.symtab_strs) { return Err(format!("C20: find_common_data and symbol_table() disagree: {} / {}", render(&c.symtab, &c.symtab_strs), render(&t, &s))); } }
                                     Err(x) => return Err(format!("C20: find_common_data succeeds but symbol_table() is Err({:?})", x)) }
            match e.dynamic_symbol_table() { Ok(o) => { let (t, s) = split(o); if render(&t, &s) != render(&c.dynsyms, &c.dynsyms_strs) { return Err(format!("C20: find_common_data and dynamic_symbol_table() disagree: {} / {}", render(&c.dynsyms, &c.dynsyms_strs), render(&t, &s))); } }
                                             Err(x) => return Err(format!("C20: find_common_data succeeds but dynamic_symbol_table() is Err({:?})", x)) }
            match e.dynamic() { Ok(o) => { let a = format!("{:?}", o.map(|t| t.iter().collect::<Vec<_>>())); let b2 = format!("{:?}", c.dynamic.map(|t| t.iter().collect::<Vec<_>>())); if a != b2 { return Err(format!("C20: find_common_data and dynamic() disagree: {} / {}", b2, a)); } }
                                Err(x) => return Err(format!("C20: find_common_data succeeds but dynamic() is Err({:?})", x)) }
        }
    }
    Ok(())
}

// ------------------------------------------------------------------------------------------------ C13
#[derive(Clone, Debug)]
pub struct SymverCase { pub versym: Vec<u8>, pub need: Vec<u8>, pub def: Vec<u8>, pub strs: Vec<u8>, pub need_count: u64, pub def_count: u64, pub little: bool }

fn uv(little: bool, b: &[u8]) -> u64 { let mut v = 0u64; if little { for i in (0..b.len()).rev() { v = (v << 8) | b[i] as u64; } } else { for i in 0..b.len() { v = (v << 8) | b[i] as u64; } } v }
fn strz(t: &[u8], off: u64) -> Option<&str> { let o = off as usize; if t.is_empty() || o >= t.len() { return None; } let k = t[o..].iter().position(|&b| b == 0)?; core::str::from_utf8(&t[o..o + k]).ok() }

/// reference resolution written from the GNU symbol-versioning description: records linked by their next/aux offsets,
/// iteration bounded by the declared counts and ended by a zero link
fn ref_requirement(c: &SymverCase, idx: u16) -> Result<Option<(String, String, u32, u16)>, ()> {
    let (d, l) = (&c.need[..], c.little);
    let (mut off, mut cnt) = (0u64, c.need_count);
    while cnt > 0 && !d.is_empty() && off + 16 <= d.len() as u64 && uv(l, &d[off as usize..off as usize + 2]) == 1 {
        let o = off as usize;
        let (vn_cnt, vn_file, vn_aux, vn_next) = (uv(l, &d[o + 2..o + 4]), uv(l, &d[o + 4..o + 8]), uv(l, &d[o + 8..o + 12]), uv(l, &d[o + 12..o + 16]));
        let (mut a, mut ac) = (off + vn_aux, vn_cnt);
        while ac > 0 && a + 16 <= d.len() as u64 {
            let p = a as usize;
            let (hash, flags, other, name, next) = (uv(l, &d[p..p + 4]), uv(l, &d[p + 4..p + 6]), uv(l, &d[p + 6..p + 8]), uv(l, &d[p + 8..p + 12]), uv(l, &d[p + 12..p + 16]));
            if other as u16 == idx {
                let f = strz(&c.strs, vn_file).ok_or(())?; let n = strz(&c.strs, name).ok_or(())?;
                return Ok(Some((f.to_string(), n.to_string(), hash as u32, flags as u16)));
            }
            ac -= 1; a += next; if ac > 0 && next == 0 { ac = 0; }
        }
        cnt -= 1; off += vn_next; if cnt > 0 && vn_next == 0 { cnt = 0; }
    }
    Ok(None)
}
fn ref_definition(c: &SymverCase, idx: u16) -> Option<(u32, u16, Vec<Option<String>>)> {
    let (d, l) = (&c.def[..], c.little);
    let (mut off, mut cnt) = (0u64, c.def_count);
    while cnt > 0 && !d.is_empty() && off + 20 <= d.len() as u64 && uv(l, &d[off as usize..off as usize + 2]) == 1 {
        let o = off as usize;
        let (flags, ndx, vd_cnt, hash, vd_aux, vd_next) = (uv(l, &d[o + 2..o + 4]), uv(l, &d[o + 4..o + 6]), uv(l, &d[o + 6..o + 8]), uv(l, &d[o + 8..o + 12]), uv(l, &d[o + 12..o + 16]), uv(l, &d[o + 16..o + 20]));
        if ndx as u16 == idx {
            let mut names = Vec::new();
            let (mut a, mut ac) = (off + vd_aux, vd_cnt);
            while ac > 0 && a + 8 <= d.len() as u64 {
                let p = a as usize;
                let (name, next) = (uv(l, &d[p..p + 4]), uv(l, &d[p + 4..p + 8]));
                names.push(strz(&c.strs, name).map(|s| s.to_string()));
                ac -= 1; a += next; if ac > 0 && next == 0 { ac = 0; }
            }
            return Some((hash as u32, flags as u16, names));
        }
        cnt -= 1; off += vd_next; if cnt > 0 && vd_next == 0 { cnt = 0; }
    }
    None
}
pub fn check_symver(c: &SymverCase) -> Result<(), String> {
    use elf::gnu_symver::{SymbolVersionTable, VerDefIterator, VerNeedIterator, VersionIndexTable};
    let e = if c.little { AnyEndian::Little } else { AnyEndian::Big };
    let t = SymbolVersionTable::new(VersionIndexTable::new(e, Class::ELF64, &c.versym),
        Some((VerNeedIterator::new(e, Class::ELF64, c.need_count, 0, &c.need), elf::string_table::StringTable::new(&c.strs))),
        Some((VerDefIterator::new(e, Class::ELF64, c.def_count, 0, &c.def), elf::string_table::StringTable::new(&c.strs))));
    let n = c.versym.len() / 2;
    for i in 0..n + 2 {
        let (rq, df) = (t.get_requirement(i), t.get_definition(i));
        if i >= n { if matches!(rq, Ok(Some(_))) || matches!(df, Ok(Some(_))) { return Err(format!("C13: symbol index {} is beyond the {} versym entries but a record was returned", i, n)); } continue; }
        let v = uv(c.little, &c.versym[2 * i..2 * i + 2]) as u16; let (idx, hidden) = (v & 0x7fff, v & 0x8000 != 0);
        match (rq, ref_requirement(c, idx)) {
            (Ok(Some(q)), Ok(Some((f, nm, h, fl)))) => if q.file != f || q.name != nm || q.hash != h || q.flags != fl || q.hidden != hidden { return Err(format!("C13: get_requirement({}) (versym {:#x}) == {:?}; the auxiliary record with vna_other == {} gives file {:?} name {:?} hash {:#x} flags {:#x} hidden {}", i, v, q, idx, f, nm, h, fl, hidden)); },
            (Ok(None), Ok(None)) => {}
            (Err(_), Err(())) => {}
            (got, want) => return Err(format!("C13: get_requirement({}) (versym {:#x}) == {:?}, the reference resolution gives {:?}", i, v, got.map(|o| o.map(|q| format!("{:?}", q))), want)),
        }
        match (df, ref_definition(c, idx)) {
            (Ok(Some(d)), Some((h, fl, names))) => {
                let got: Vec<Option<String>> = d.names.map(|r| r.ok().map(|s| s.to_string())).collect();
                if d.hash != h || d.flags != fl || d.hidden != hidden || got != names { return Err(format!("C13: get_definition({}) (versym {:#x}) == hash {:#x} flags {:#x} hidden {} names {:?}; the definition with vd_ndx == {} gives hash {:#x} flags {:#x} hidden {} names {:?}", i, v, d.hash, d.flags, d.hidden, got, idx, h, fl, hidden, names)); }
            }
            (Ok(None), None) => {}
            (got, want) => return Err(format!("C13: get_definition({}) (versym {:#x}) is {} but the reference resolution gives {:?}", i, v, match got { Ok(Some(_)) => "Some", Ok(None) => "None", Err(_) => "Err" }, want)),
        }
    }
    Ok(())
}
/// structured random version sections: records of version 1 with small counts, next/aux links from a small set (forward,
/// zero, past the end), versym entries that hit, miss, and carry the hidden bit
pub fn enumerate_symver(n: usize, seed: u64) -> Vec<SymverCase> {
    let mut r = Lcg(seed); let mut out = Vec::with_capacity(n);
    for _ in 0..n {
        let little = r.next(2) == 0;
        let p16 = |b: &mut Vec<u8>, o: usize, v: u64| { let x = (v as u16).to_le_bytes(); if little { b[o] = x[0]; b[o + 1] = x[1]; } else { b[o] = x[1]; b[o + 1] = x[0]; } };
        let p32 = |b: &mut Vec<u8>, o: usize, v: u64| { let x = (v as u32).to_le_bytes(); for k in 0..4 { b[o + k] = if little { x[k] } else { x[3 - k] }; } };
        let nsym = 1 + r.next(4) as usize;
        let mut versym = vec![0u8; 2 * nsym];
        for i in 0..nsym { p16(&mut versym, 2 * i, [0u64, 1, 2, 3, 4, 0x8002, 0x8003, 0x7fff, 0x8000][r.next(9) as usize]); }
        let strs: Vec<u8> = vec![0, b'l', b'i', b'b', 0, b'V', b'1', 0, b'V', b'2', 0, 0xff, b'x', 0, b'n'];
        let soff = |r: &mut Lcg| [1u64, 5, 8, 0, 11, 14, 40][r.next(7) as usize];
        let mut need = vec![0u8; [0usize, 16, 32, 48, 64, 80][r.next(6) as usize]];
        let mut o = 0usize;
        while o + 16 <= need.len() {
            p16(&mut need, o, if r.next(10) == 0 { 2 } else { 1 }); p16(&mut need, o + 2, r.next(3)); p32(&mut need, o + 4, soff(&mut r));
            p32(&mut need, o + 8, [16u64, 16, 32, 0, 200][r.next(5) as usize]); p32(&mut need, o + 12, [32u64, 16, 48, 0, 0x80000010][r.next(5) as usize]);
            if o + 32 <= need.len() { let a = o + 16; p32(&mut need, a, r.next(1 << 20)); p16(&mut need, a + 4, r.next(4)); p16(&mut need, a + 6, [2u64, 3, 4, 0x8002, 1, 0][r.next(6) as usize]); p32(&mut need, a + 8, soff(&mut r)); p32(&mut need, a + 12, [16u64, 0, 32, 1000][r.next(4) as usize]); }
            o += 32;
        }
        let mut def = vec![0u8; [0usize, 20, 28, 56, 84][r.next(5) as usize]];
        let mut o = 0usize;
        while o + 20 <= def.len() {
            p16(&mut def, o, if r.next(10) == 0 { 0 } else { 1 }); p16(&mut def, o + 2, r.next(4)); p16(&mut def, o + 4, [1u64, 2, 3, 4, 0x7fff][r.next(5) as usize]); p16(&mut def, o + 6, r.next(3));
            p32(&mut def, o + 8, r.next(1 << 20)); p32(&mut def, o + 12, [20u64, 20, 24, 0, 300][r.next(5) as usize]); p32(&mut def, o + 16, [28u64, 28, 0, 56, 20][r.next(5) as usize]);
            if o + 28 <= def.len() { p32(&mut def, o + 20, soff(&mut r)); p32(&mut def, o + 24, [8u64, 0, 28, 500][r.next(4) as usize]); }
            o += 28;
        }
        // truncation boundaries: once in a few thousand cases the sections are padded with zeros to just around 2^16 auxiliary-record
        // slots after the first record (a count or a size narrowed to 16 bits somewhere shows there and nowhere below)
        if r.next(4000) == 0 {
            let d = [0usize, 8, 4, 16][r.next(4) as usize]; let k = 1 + r.next(2) as usize;
            if !def.is_empty() { def.resize(20 + 8 * 65536 * k + d, 0); }
            if !need.is_empty() { need.resize(16 + 16 * 65536 * k + d, 0); }
        }
        out.push(SymverCase { versym, need, def, strs, need_count: [0u64, 1, 2, 3, u64::MAX][r.next(5) as usize], def_count: [0u64, 1, 2, 3, u64::MAX][r.next(5) as usize], little });
    }
    out
}

// ------------------------------------------------------------------------------------------------ C11 / C12
#[derive(Clone, Debug)]
pub struct HashCase { pub names: Vec<Vec<u8>>, pub absent: Vec<Vec<u8>>, pub nbucket: u32, pub nbloom: u32, pub shift: u32, pub elf64: bool, pub little: bool, pub corrupt: Option<(bool, usize, u8)>, pub symoff: u32 }

fn elf_hash(name: &[u8]) -> u32 { let mut h: u32 = 0; for &c in name { h = (h << 4).wrapping_add(c as u32); let g = h & 0xf000_0000; if g != 0 { h ^= g >> 24; } h &= !g; } h }
fn djb2(name: &[u8]) -> u32 { let mut h: u32 = 5381; for &c in name { h = h.wrapping_mul(33).wrapping_add(c as u32); } h }
fn w16(v: &mut Vec<u8>, little: bool, x: u16) { if little { v.extend_from_slice(&x.to_le_bytes()) } else { v.extend_from_slice(&x.to_be_bytes()) } }
fn w32(v: &mut Vec<u8>, little: bool, x: u32) { if little { v.extend_from_slice(&x.to_le_bytes()) } else { v.extend_from_slice(&x.to_be_bytes()) } }
fn w64(v: &mut Vec<u8>, little: bool, x: u64) { if little { v.extend_from_slice(&x.to_le_bytes()) } else { v.extend_from_slice(&x.to_be_bytes()) } }

/// C11/C12 second sentence, against the real code: tables BUILT per the gABI / the GNU format description for a symbol table
/// (an independent builder) -- lookup finds every symbol by name and returns None for absent names; with one corrupted byte
/// in the hash section the lookup stays sound (a returned symbol is the entry at the returned index and carries the name)
pub fn check_hash_tables(c: &HashCase) -> Result<(), String> {
    use elf::hash::{GnuHashTable, SysVHashTable};
    let (l, class) = (c.little, if c.elf64 { Class::ELF64 } else { Class::ELF32 });
    let e = if l { AnyEndian::Little } else { AnyEndian::Big };
    // string table and symbol table (symbol 0 is the null symbol)
    let mut strs = vec![0u8]; let mut offs = vec![0u32];
    for n in c.names.iter() { offs.push(strs.len() as u32); strs.extend_from_slice(n); strs.push(0); }
    let nsym = c.names.len() + 1;
    // GNU: hashed symbols must be sorted by bucket; keep one ordering for both tables
    let nb = c.nbucket.max(1);
    let mut order: Vec<usize> = (1..nsym).collect();
    // GNU: the first symoffset-1 symbols (after the null symbol) are not hashed; the hashed ones are sorted by bucket
    let symoff = (c.symoff.max(1)) as usize; let unhashed = (symoff - 1).min(order.len());
    order[unhashed..].sort_by_key(|&i| djb2(&c.names[i - 1]) % nb);
    let name_of = |k: usize| -> &[u8] { if k == 0 { &[] } else { &c.names[order[k - 1] - 1] } };    // symbol k of the emitted table
    let mut symtab = Vec::new();
    for k in 0..nsym {
        let st_name = if k == 0 { 0 } else { offs[order[k - 1]] };
        if c.elf64 { w32(&mut symtab, l, st_name); symtab.push(0x12); symtab.push(0); w16(&mut symtab, l, 1); w64(&mut symtab, l, 0x1000 + k as u64); w64(&mut symtab, l, 8); }
        else { w32(&mut symtab, l, st_name); w32(&mut symtab, l, 0x1000 + k as u32); w32(&mut symtab, l, 8); symtab.push(0x12); symtab.push(0); w16(&mut symtab, l, 1); }
    }
    // ---- SysV: nbucket, nchain, bucket[], chain[]; chain[i] links the symbols of a bucket, 0 ends it
    let mut buckets = vec![0u32; nb as usize]; let mut chains = vec![0u32; nsym];
    for k in 1..nsym { let b = (elf_hash(name_of(k)) % nb) as usize; chains[k] = buckets[b]; buckets[b] = k as u32; }
    let mut sysv = Vec::new(); w32(&mut sysv, l, nb); w32(&mut sysv, l, nsym as u32); for x in buckets.iter() { w32(&mut sysv, l, *x); } for x in chains.iter() { w32(&mut sysv, l, *x); }
    // ---- GNU: nbucket, symoffset, bloom_size, bloom_shift, bloom[], buckets[], chain[]
    let nbloom = c.nbloom.max(1); let bits: u32 = if c.elf64 { 64 } else { 32 };
    let mut bloom = vec![0u64; nbloom as usize]; let mut gb = vec![0u32; nb as usize]; let mut gc = vec![0u32; nsym.saturating_sub(symoff)];
    for k in symoff..nsym {
        let h = djb2(name_of(k)); let b = (h % nb) as usize;
        bloom[((h / bits) % nbloom) as usize] |= (1u64 << (h % bits)) | (1u64 << (h.checked_shr(c.shift).unwrap_or(0) % bits));
        if gb[b] == 0 { gb[b] = k as u32; }
        let last = k + 1 == nsym || djb2(name_of(k + 1)) % nb != h % nb;
        gc[k - symoff] = (h & !1) | (last as u32);
    }
    let mut gnu = Vec::new(); w32(&mut gnu, l, nb); w32(&mut gnu, l, symoff as u32); w32(&mut gnu, l, nbloom); w32(&mut gnu, l, c.shift);
    for w in bloom.iter() { if c.elf64 { w64(&mut gnu, l, *w) } else { w32(&mut gnu, l, *w as u32) } }
    for x in gb.iter() { w32(&mut gnu, l, *x); } for x in gc.iter() { w32(&mut gnu, l, *x); }
    let well_formed = c.corrupt.is_none() && c.shift < 32;       // a shift count >= 32 is not a well-formed table (lookups must still not panic)
    if let Some((in_gnu, pos, val)) = c.corrupt { let t = if in_gnu { &mut gnu } else { &mut sysv }; let p = pos % t.len(); t[p] ^= val | 1; }
    let syms = elf::symbol::SymbolTable::<AnyEndian>::new(e, class, &symtab);
    let st = elf::string_table::StringTable::new(&strs);
    let tag = |which: &str| if which == "GNU" { "C11: GNU" } else { "C12: SysV" };
    let check = |which: &str, r: Result<Option<(usize, elf::symbol::Symbol)>, elf::ParseError>, q: &[u8], present: bool| -> Result<(), String> {
        match r {
            Ok(Some((i, s))) => {
                if i >= nsym || syms.get(i).ok().as_ref() != Some(&s) { return Err(format!("{}: find({:?}) returned index {} / a symbol that is not the table's entry at that index", tag(which), q, i)); }
                if st.get_raw(s.st_name as usize).ok() != Some(q) { return Err(format!("{}: find({:?}) returned symbol {} whose name is {:?}", tag(which), q, i, st.get_raw(s.st_name as usize).ok())); }
                Ok(())
            }
            Ok(None) => if well_formed && present { Err(format!("{}: a well-formed table (nbucket {}, {} symbols{}) does not find the present name {:?}", tag(which), nb, nsym - 1, if which == "GNU" { format!(", bloom words {}, shift {}", nbloom, c.shift) } else { String::new() }, q)) } else { Ok(()) },
            Err(x) => if well_formed { Err(format!("{}: lookup of {:?} in a well-formed table is Err({:?})", tag(which), q, x)) } else { Ok(()) },
        }
    };
    let sysv_t = if on("C12") { SysVHashTable::new(e, class, &sysv) } else { Err(elf::ParseError::BadMagic([0; 4])) }; let gnu_t = if on("C11") { GnuHashTable::new(e, class, &gnu) } else { Err(elf::ParseError::BadMagic([0; 4])) };
    if well_formed && on("C12") && sysv_t.is_err() { return Err("C12: a well-formed .hash section is rejected by SysVHashTable::new()".into()); }
    if well_formed && on("C11") && gnu_t.is_err() { return Err("C11: a well-formed .gnu.hash section is rejected by GnuHashTable::new()".into()); }
    // queries with an embedded NUL that spell two neighbouring strings of the string table: never a symbol's name
    let spliced: Vec<Vec<u8>> = (0..c.names.len().saturating_sub(1)).map(|k| [&c.names[k][..], &[0u8][..], &c.names[k + 1][..]].concat()).collect();
    for (q, present) in c.names.iter().map(|n| (n, true)).chain(c.absent.iter().filter(|a| !c.names.contains(a)).map(|n| (n, false))).chain(spliced.iter().map(|n| (n, false))) {
        // the calls themselves are gated by the property being checked: a panic in the GNU lookup is not a C12 failure
        if on("C12") { if let Ok(t) = &sysv_t { check("SysV", t.find(q, &syms, &st), q, present)?; } }
        // GNU finds exactly the hashed symbols (index >= symoffset)
        let hashed = (symoff..nsym).any(|k| name_of(k) == &q[..]);
        if on("C11") { if let Ok(t) = &gnu_t { check("GNU", t.find(q, &syms, &st), q, present && hashed)?; } }
    }
    Ok(())
}
pub fn enumerate_hash(n: usize, seed: u64) -> Vec<HashCase> {
    let mut r = Lcg(seed); let mut out = Vec::with_capacity(n);
    for _ in 0..n {
        let nn = r.next(9) as usize;
        let mk = |r: &mut Lcg| -> Vec<u8> { let len = 1 + r.next(6) as usize; (0..len).map(|_| [b'a', b'b', b'_', b'Z', 0xe9, 0x80, b'1'][r.next(7) as usize]).collect() };
        let mut names: Vec<Vec<u8>> = Vec::new();
        for _ in 0..nn { let x = mk(&mut r); if r.next(6) == 0 && !names.is_empty() { let d = names[r.next(names.len() as u64) as usize].clone(); names.push(d); } else { names.push(x); } }
        let absent: Vec<Vec<u8>> = (0..6).map(|_| mk(&mut r)).collect();
        let corrupt = if r.next(3) == 0 { Some((r.next(2) == 0, r.next(4096) as usize, r.next(256) as u8)) } else { None };
        out.push(HashCase { names, absent, nbucket: [1u32, 1, 2, 3, 5, 8][r.next(6) as usize], nbloom: [1u32, 1, 2, 4][r.next(4) as usize], shift: [5u32, 6, 26, 0, 31, 11, 6, 40, 63, 32][r.next(10) as usize], elf64: r.next(2) == 0, little: r.next(2) == 0, corrupt, symoff: [1u32, 1, 1, 1, 2, 3, 5, 9, 12, 40][r.next(10) as usize] });
    }
    out
}

// ------------------------------------------------------------------------------------------------ C05 (slice parser)
/// C05 over one file of the stream family: the header tables are exactly the entries the ELF header (and shdr[0]) declare,
/// decoded independently here; opening fails iff a present table's entry size is wrong or the declared table does not fit
pub type Located = Result<Option<(u64, u64)>, ()>;    // Err: opening must fail; Ok(None): table absent; Ok(Some((offset, entries)))
/// what the ELF header (and shdr[0]) of an ELF64/LE file declare about its two header tables, decoded independently
pub fn c05_expect(b: &[u8]) -> Option<(Located, Located)> {
    if b.len() < 64 || b[..4] != [0x7f, b'E', b'L', b'F'] || b[4] != 2 || b[5] != 1 || b[6] != 1 { return None; }   // the family is ELF64/LE
    let u16a = |o: usize| u16::from_le_bytes([b[o], b[o + 1]]) as u64; let u32a = |o: usize| u32::from_le_bytes([b[o], b[o + 1], b[o + 2], b[o + 3]]) as u64;
    let u64a = |o: usize| u64::from_le_bytes([b[o], b[o + 1], b[o + 2], b[o + 3], b[o + 4], b[o + 5], b[o + 6], b[o + 7]]);
    let (phoff, shoff, phentsize, phnum, shentsize, shnum) = (u64a(32), u64a(40), u16a(54), u16a(56), u16a(58), u16a(60));
    let fits = |off: u64, n: u64, sz: u64| n.checked_mul(sz).and_then(|t| off.checked_add(t)).map_or(false, |e| e <= b.len() as u64);
    let shdr0_ok = shoff != 0 && fits(shoff, 1, 64);
    let want_sh: Located = if shoff == 0 { Ok(None) } else {
        let n = if shnum == 0 { if !shdr0_ok { Err(()) } else { Ok(u64a(shoff as usize + 32)) } } else { Ok(shnum) };
        match n { Err(()) => Err(()), Ok(n) => if shentsize != 64 || !fits(shoff, n, 64) { Err(()) } else { Ok(Some((shoff, n))) } } };
    let want_ph: Located = if phoff == 0 { Ok(None) } else {
        let n = if phnum == 0xffff { if !fits(shoff, 1, 64) { Err(()) } else { Ok(u32a(shoff as usize + 44)) } } else { Ok(phnum) };
        match n { Err(()) => Err(()), Ok(n) => if phentsize != 56 || !fits(phoff, n, 56) { Err(()) } else { Ok(Some((phoff, n))) } } };
    Some((want_sh, want_ph))
}
pub fn check_c05_file(b: &[u8]) -> Result<(), String> {
    let (want_sh, want_ph) = match c05_expect(b) { Some(x) => x, None => return Ok(()) };
    let u32a = |o: usize| u32::from_le_bytes([b[o], b[o + 1], b[o + 2], b[o + 3]]) as u64;
    let u64a = |o: usize| u64::from_le_bytes([b[o], b[o + 1], b[o + 2], b[o + 3], b[o + 4], b[o + 5], b[o + 6], b[o + 7]]);
    let u16a = |o: usize| u16::from_le_bytes([b[o], b[o + 1]]) as u64;
    let (phoff, shoff, phentsize, phnum, shentsize, shnum) = (u64a(32), u64a(40), u16a(54), u16a(56), u16a(58), u16a(60));
    let r = ElfBytes::<AnyEndian>::minimal_parse(b);
    match (&r, &want_sh, &want_ph) {
        (Ok(e), Ok(sh), Ok(ph)) => {
            let got_sh = e.section_headers().map(|t| t.len() as u64); let got_ph = e.segments().map(|t| t.len() as u64);
            if got_sh != sh.map(|x| x.1) { return Err(format!("C05: section header table has {:?} entries, the header declares {:?} (e_shoff {}, e_shnum {}, shdr[0].sh_size rule)", got_sh, sh.map(|x| x.1), shoff, shnum)); }
            if got_ph != ph.map(|x| x.1) { return Err(format!("C05: program header table has {:?} entries, the header declares {:?} (e_phoff {}, e_phnum {}, shdr[0].sh_info rule)", got_ph, ph.map(|x| x.1), phoff, phnum)); }
            if let (Some(t), Some((off, n))) = (e.section_headers(), sh) { for i in 0..(*n).min(4) { let o = (*off + 64 * i) as usize; let h = t.get(i as usize).map_err(|_| format!("C05: section header {} unreadable", i))?;
                if h.sh_name as u64 != u32a(o) || h.sh_type as u64 != u32a(o + 4) || h.sh_offset != u64a(o + 24) || h.sh_size != u64a(o + 32) || h.sh_link as u64 != u32a(o + 40) || h.sh_entsize != u64a(o + 56) { return Err(format!("C05: section header {} is not the entry at e_shoff + {}*64", i, i)); } } }
            if let (Some(t), Some((off, n))) = (e.segments(), ph) { for i in 0..(*n).min(2) { let o = (*off + 56 * i) as usize; let h = t.get(i as usize).map_err(|_| format!("C05: program header {} unreadable", i))?;
                if h.p_type as u64 != u32a(o) || h.p_offset != u64a(o + 8) || h.p_filesz != u64a(o + 32) { return Err(format!("C05: program header {} is not the entry at e_phoff + {}*56", i, i)); } } }
            Ok(())
        }
        (Ok(_), _, _) => Err(format!("C05: the file opens although a declared header table has a wrong entry size or does not fit (shoff {} shnum {} shentsize {}; phoff {} phnum {} phentsize {})", shoff, shnum, shentsize, phoff, phnum, phentsize)),
        (Err(x), Ok(_), Ok(_)) => Err(format!("C05: opening fails with {:?} although both declared tables have the right entry size and fit in the {}-byte file", x, b.len())),
        _ => Ok(()),
    }
}
