//! Native bounded oracle for C16 (every lookup and iteration terminates within work bounded by the input size), against
//! the real code: adversarial link structures -- SysV chains with cycles and self-loops, GNU chains without a stop bit,
//! version records whose next-offset is zero / points at itself / overlaps, absurd declared counts, random note bytes.
//! Clauses (from the property statement): a lookup returns (watchdog: 3 s for inputs of < 300 bytes); an iterator yields at
//! most one item per input byte; a version-record iterator yields at most its declared count.
//! Used as bounded cross-validation / replay search only: it produces failing inputs, never an OK.
use elf::endian::AnyEndian;
use elf::file::Class;

struct Lcg(u64);
impl Lcg { fn next(&mut self, n: u64) -> u64 { self.0 = self.0.wrapping_mul(6364136223846793005).wrapping_add(1442695040888963407); (self.0 >> 33) % n } }

#[derive(Debug, Clone)]
pub struct TermCase { pub kind: u8, pub table: Vec<u8>, pub symtab: Vec<u8>, pub strs: Vec<u8>, pub versym: Vec<u8>, pub name: Vec<u8>, pub count: u64, pub start: u64, pub align: u64, pub elf64: bool, pub little: bool }

fn w32(v: &mut Vec<u8>, little: bool, x: u32) { if little { v.extend_from_slice(&x.to_le_bytes()) } else { v.extend_from_slice(&x.to_be_bytes()) } }
fn w64(v: &mut Vec<u8>, little: bool, x: u64) { if little { v.extend_from_slice(&x.to_le_bytes()) } else { v.extend_from_slice(&x.to_be_bytes()) } }
fn w16(v: &mut Vec<u8>, little: bool, x: u16) { if little { v.extend_from_slice(&x.to_le_bytes()) } else { v.extend_from_slice(&x.to_be_bytes()) } }
fn djb2(name: &[u8]) -> u32 { let mut h: u32 = 5381; for &c in name { h = h.wrapping_mul(33).wrapping_add(c as u32); } h }

const WATCHDOG_MS: u64 = 3000;

/// the cases run on ONE persistent worker thread (a thread per case costs more than the cases); Err if the worker does not
/// answer within the watchdog (it is abandoned: the caller reports the failure and the process ends) or panics (attributed by
/// the recorded panic location, as in `guarded`; a fresh worker is started for the next case)
struct Worker { tx: std::sync::mpsc::Sender<TermCase>, rx: std::sync::mpsc::Receiver<Result<(), String>> }
static WORKER: std::sync::Mutex<Option<Worker>> = std::sync::Mutex::new(None);
fn spawn_worker() -> Worker {
    let (tx, crx) = std::sync::mpsc::channel::<TermCase>(); let (rtx, rx) = std::sync::mpsc::channel();
    std::thread::spawn(move || { while let Ok(c) = crx.recv() { if rtx.send(check_inner(&c)).is_err() { break; } } });
    Worker { tx, rx }
}

pub fn check_term(c: &TermCase) -> Result<(), String> {
    let what = ["SysVHashTable::find", "GnuHashTable::find", "VerNeedIterator (+ auxiliary iterators)", "VerDefIterator (+ auxiliary iterators)", "NoteIterator", "SymbolVersionTable::get_requirement / get_definition", "ParsingIterator"][(c.kind % 7) as usize];
    let mut g = WORKER.lock().unwrap_or_else(|e| e.into_inner());
    if g.is_none() { *g = Some(spawn_worker()); }
    let w = g.as_ref().unwrap();
    if w.tx.send(c.clone()).is_err() { *g = None; return Err(crate::panic_msg()); }
    match w.rx.recv_timeout(std::time::Duration::from_millis(WATCHDOG_MS)) {
        Ok(r) => r,
        Err(std::sync::mpsc::RecvTimeoutError::Timeout) => { *g = None; Err(format!("C16: {} did not return within {} ms on an input of a few hundred bytes", what, WATCHDOG_MS)) }
        Err(std::sync::mpsc::RecvTimeoutError::Disconnected) => { *g = None; Err(crate::panic_msg()) }
    }
}

fn check_inner(c: &TermCase) -> Result<(), String> {
    let e = if c.little { AnyEndian::Little } else { AnyEndian::Big };
    let class = if c.elf64 { Class::ELF64 } else { Class::ELF32 };
    match c.kind % 7 {
        0 | 1 => {
            let syms = elf::symbol::SymbolTable::<AnyEndian>::new(e, class, &c.symtab);
            let st = elf::string_table::StringTable::new(&c.strs);
            // termination is the clause (the watchdog); the answer itself is C11/C12's business
            if c.kind % 7 == 0 { if let Ok(t) = elf::hash::SysVHashTable::new(e, class, &c.table) { let _ = t.find(&c.name, &syms, &st); } }
            else { if let Ok(t) = elf::hash::GnuHashTable::new(e, class, &c.table) { let _ = t.find(&c.name, &syms, &st); } }
            Ok(())
        }
        2 => {
            let len = c.table.len() as u64; let cap = c.count.min(len);
            let mut n = 0u64;
            for (_vn, aux) in elf::gnu_symver::VerNeedIterator::new(e, class, c.count, c.start as usize, &c.table) {
                n += 1;
                if n > cap { return Err(format!("C16: VerNeedIterator over {} bytes with declared count {} yielded a {}th record", len, c.count, n)); }
                let declared = _vn.vn_cnt as u64; let mut k = 0u64;
                for _a in aux { k += 1; if k > declared.min(len) { return Err(format!("C16: VerNeedAuxIterator of a record with vn_cnt {} over {} bytes yielded a {}th auxiliary record", declared, len, k)); } }
            }
            Ok(())
        }
        3 => {
            let len = c.table.len() as u64; let cap = c.count.min(len);
            let mut n = 0u64;
            for (_vd, aux) in elf::gnu_symver::VerDefIterator::new(e, class, c.count, c.start as usize, &c.table) {
                n += 1;
                if n > cap { return Err(format!("C16: VerDefIterator over {} bytes with declared count {} yielded a {}th record", len, c.count, n)); }
                let declared = _vd.vd_cnt as u64; let mut k = 0u64;
                for _a in aux { k += 1; if k > declared.min(len) { return Err(format!("C16: VerDefAuxIterator of a record with vd_cnt {} over {} bytes yielded a {}th auxiliary record", declared, len, k)); } }
            }
            Ok(())
        }
        4 => {
            let len = c.table.len() as u64; let mut n = 0u64;
            for _note in elf::note::NoteIterator::new(e, class, c.align as usize, &c.table) {
                n += 1;
                if n > len { return Err(format!("C16: NoteIterator (alignment {}) over {} bytes yielded a {}th note", c.align, len, n)); }
            }
            Ok(())
        }
        5 => {
            use elf::gnu_symver::{SymbolVersionTable, VerDefIterator, VerNeedIterator, VersionIndexTable};
            // table = verneed section, symtab = verdef section (reused field), count = both declared counts
            let t = SymbolVersionTable::new(VersionIndexTable::new(e, Class::ELF64, &c.versym),
                Some((VerNeedIterator::new(e, Class::ELF64, c.count, 0, &c.table), elf::string_table::StringTable::new(&c.strs))),
                Some((VerDefIterator::new(e, Class::ELF64, c.count, 0, &c.symtab), elf::string_table::StringTable::new(&c.strs))));
            let len = (c.table.len() + c.symtab.len()) as u64;
            for i in 0..c.versym.len() / 2 + 1 {
                let _ = t.get_requirement(i);
                if let Ok(Some(d)) = t.get_definition(i) {
                    let mut k = 0u64;
                    for _n in d.names { k += 1; if k > len { return Err(format!("C16: the names of get_definition({}) over {} bytes of version sections yielded a {}th name", i, len, k)); } }
                }
            }
            Ok(())
        }
        _ => {
            let t = elf::parse::ParsingTable::<AnyEndian, elf::symbol::Symbol>::new(e, class, &c.table);
            let len = c.table.len() as u64; let mut n = 0u64;
            for _s in t.iter() { n += 1; if n > len { return Err(format!("C16: ParsingIterator over {} bytes yielded a {}th entry", len, n)); } }
            Ok(())
        }
    }
}

pub fn enumerate_term(n: usize, seed: u64) -> Vec<TermCase> {
    let mut r = Lcg(seed ^ 0xc16); let mut out = Vec::with_capacity(n);
    let names: [&[u8]; 5] = [b"a", b"b", b"ab", b"_Z1", b"zz"];
    for i in 0..n {
        let kind = (i % 7) as u8; let little = r.next(2) == 0; let elf64 = r.next(2) == 0;
        let mut c = TermCase { kind, table: vec![], symtab: vec![], strs: vec![], versym: vec![], name: names[r.next(5) as usize].to_vec(), count: 0, start: 0, align: 4, elf64, little };
        match kind {
            0 | 1 => {
                // symbols 0..nsym with names from the small set (so that chains are walked past hash mismatches and matches alike);
                // a third of the names are unreadable (st_name past the string table)
                let nsym = 1 + r.next(6) as usize;
                let mut strs = vec![0u8]; let mut offs = vec![0u32];
                for _ in 1..nsym { offs.push(if r.next(3) == 0 { 1000 + r.next(5) as u32 } else { strs.len() as u32 }); strs.extend_from_slice(names[r.next(5) as usize]); strs.push(0); }
                if r.next(6) == 0 { strs.pop(); }      // an unterminated last string: its symbol's name is unreadable
                let mut symtab = Vec::new();
                for k in 0..nsym {
                    if elf64 { w32(&mut symtab, little, offs[k]); symtab.push(0x12); symtab.push(0); w16(&mut symtab, little, 1); w64(&mut symtab, little, k as u64); w64(&mut symtab, little, 8); }
                    else { w32(&mut symtab, little, offs[k]); w32(&mut symtab, little, k as u32); w32(&mut symtab, little, 8); symtab.push(0x12); symtab.push(0); w16(&mut symtab, little, 1); }
                }
                let nb = 1 + r.next(3) as u32;
                let link = |r: &mut Lcg| -> u32 { match r.next(8) { 0 => 0, 1 => nsym as u32, 2 => u32::MAX, _ => r.next(nsym as u64) as u32 } };
                let mut t = Vec::new();
                if kind == 0 {
                    // nbucket, nchain, bucket[], chain[]: links drawn from [0, nsym) => cycles and self-loops of every length are common
                    let nchain = match r.next(6) { 0 => nsym as u32 + 1, 1 => nsym.saturating_sub(1) as u32, _ => nsym as u32 };
                    w32(&mut t, little, nb); w32(&mut t, little, nchain);
                    for _ in 0..nb { let x = link(&mut r); w32(&mut t, little, x); }
                    for k in 0..nchain { let x = if r.next(5) == 0 { k } else { link(&mut r) }; w32(&mut t, little, x); }
                } else {
                    // nbucket, symoffset, bloom_size, bloom_shift, bloom[] (all ones: never filters), bucket[], chain[] mostly without stop bit
                    let symoff = r.next(2) as u32; let nbloom = 1 + r.next(2) as u32;
                    w32(&mut t, little, nb); w32(&mut t, little, symoff); w32(&mut t, little, nbloom); w32(&mut t, little, [5u32, 6, 0, 31][r.next(4) as usize]);
                    for _ in 0..nbloom { if elf64 { w64(&mut t, little, u64::MAX) } else { w32(&mut t, little, u32::MAX) } }
                    for _ in 0..nb { let x = link(&mut r); w32(&mut t, little, x); }
                    let nchain = (nsym as u32).saturating_sub(symoff) + r.next(2) as u32;
                    for _ in 0..nchain { let h = match r.next(3) { 0 => djb2(&c.name), 1 => djb2(names[r.next(5) as usize]), _ => r.next(1 << 32) as u32 }; let x = if r.next(6) == 0 { h | 1 } else { h & !1 }; w32(&mut t, little, x); }
                }
                if r.next(8) == 0 && !t.is_empty() { let p = r.next(t.len() as u64) as usize; t[p] ^= 1 << r.next(8); }
                c.table = t; c.symtab = symtab; c.strs = strs;
            }
            2 | 3 | 5 => {
                let p16 = |b: &mut Vec<u8>, o: usize, v: u64| { let x = (v as u16).to_le_bytes(); if little { b[o] = x[0]; b[o + 1] = x[1]; } else { b[o] = x[1]; b[o + 1] = x[0]; } };
                let p32 = |b: &mut Vec<u8>, o: usize, v: u64| { let x = (v as u32).to_le_bytes(); for k in 0..4 { b[o + k] = if little { x[k] } else { x[3 - k] }; } };
                let nxt = |r: &mut Lcg| [0u64, 0, 1, 2, 4, 16, 20, 28, 32, 0xffff_fff0, 0x8000_0000, 7][r.next(12) as usize];
                let cnt = |r: &mut Lcg| [0u64, 1, 2, 3, 0xffff, 200][r.next(6) as usize];
                let mk_need = |r: &mut Lcg| { let mut b = vec![0u8; [16usize, 32, 48, 64, 96][r.next(5) as usize]]; let mut o = 0; while o + 16 <= b.len() {
                    // alternately a record (version 1, vn_cnt, vn_file, vn_aux, vn_next) and an auxiliary record laid over the same 16 bytes
                    p16(&mut b, o, 1); p16(&mut b, o + 2, cnt(r)); p32(&mut b, o + 4, [1u64, 5, 0][r.next(3) as usize]); p32(&mut b, o + 8, nxt(r)); p32(&mut b, o + 12, nxt(r)); o += 16; } b };
                let mk_def = |r: &mut Lcg| { let mut b = vec![0u8; [20usize, 28, 40, 56, 84][r.next(5) as usize]]; let mut o = 0; while o + 20 <= b.len() {
                    p16(&mut b, o, 1); p16(&mut b, o + 2, r.next(4)); p16(&mut b, o + 4, [1u64, 2, 3][r.next(3) as usize]); p16(&mut b, o + 6, cnt(r)); p32(&mut b, o + 8, r.next(1 << 20)); p32(&mut b, o + 12, nxt(r)); p32(&mut b, o + 16, nxt(r)); o += 20; } b };
                c.count = [0u64, 1, 2, 3, 1000, u64::MAX, 1 << 32][r.next(7) as usize];
                c.start = [0u64, 0, 0, 1, 16, 20][r.next(6) as usize];
                c.strs = vec![0, b'l', b'i', b'b', 0, b'V', b'1', 0];
                if kind == 2 { c.table = mk_need(&mut r); } else if kind == 3 { c.table = mk_def(&mut r); }
                else { c.table = mk_need(&mut r); c.symtab = mk_def(&mut r); c.start = 0; let ns = 1 + r.next(3) as usize; let mut v = vec![0u8; 2 * ns]; for k in 0..ns { p16(&mut v, 2 * k, [1u64, 2, 3, 4, 0x8002, 0][r.next(6) as usize]); } c.versym = v; }
            }
            4 => {
                c.align = [0u64, 1, 3, 4, 8, 4][r.next(6) as usize];
                let len = r.next(64) as usize; let mut b = vec![0u8; len];
                // small namesz / descsz words so that many (also empty) notes fit; some random bytes
                for k in 0..len { b[k] = if k % 4 == (if little { 0 } else { 3 }) { [0u8, 0, 1, 4, 5, 8][r.next(6) as usize] } else if r.next(10) == 0 { r.next(256) as u8 } else { 0 }; }
                c.table = b;
            }
            _ => { let len = r.next(80) as usize; c.table = (0..len).map(|_| r.next(256) as u8).collect(); }
        }
        out.push(c);
    }
    out
}
