//! Executable oracle for the stream parser (C07 / C05-stream / C08 / C17 / C18-stream), used ONLY to look for a concrete
//! failing input after Verus rejected, or could not decide, an obligation of src/elf_stream.rs.  Kani cannot run the stream
//! parser here (it does not get through a single HashMap insertion), so the search is a bounded NATIVE enumeration of a
//! stated family of small ELF64/LE files (fixed pseudo-random seed); it never produces an OK for anything.
//! `check_stream(&case)` is the oracle; `enumerate(n)` the family; the replay program calls check_stream on one case.
use elf::endian::AnyEndian;
use elf::{ElfBytes, ElfStream};
use std::io::{Cursor, Read, Seek, SeekFrom};

// ---- the largest single heap allocation made while the stream parser runs (C08, first sentence)
pub mod alloc_probe {
    use std::alloc::{GlobalAlloc, Layout, System};
    use std::sync::atomic::{AtomicBool, AtomicUsize, Ordering};
    pub static PEAK: AtomicUsize = AtomicUsize::new(0);
    pub static ON: AtomicBool = AtomicBool::new(false);
    pub struct A;
    unsafe impl GlobalAlloc for A {
        unsafe fn alloc(&self, l: Layout) -> *mut u8 { if ON.load(Ordering::Relaxed) { PEAK.fetch_max(l.size(), Ordering::Relaxed); } System.alloc(l) }
        unsafe fn alloc_zeroed(&self, l: Layout) -> *mut u8 { if ON.load(Ordering::Relaxed) { PEAK.fetch_max(l.size(), Ordering::Relaxed); } System.alloc_zeroed(l) }
        unsafe fn realloc(&self, p: *mut u8, l: Layout, n: usize) -> *mut u8 { if ON.load(Ordering::Relaxed) { PEAK.fetch_max(n, Ordering::Relaxed); } System.realloc(p, l, n) }
        unsafe fn dealloc(&self, p: *mut u8, l: Layout) { System.dealloc(p, l) }
    }
    #[global_allocator]
    static G: A = A;
    /// run f and return the largest single allocation request made meanwhile
    pub fn measure<T>(f: impl FnOnce() -> T) -> (T, usize) {
        PEAK.store(0, Ordering::Relaxed); ON.store(true, Ordering::Relaxed);
        let r = f();
        ON.store(false, Ordering::Relaxed);
        (r, PEAK.load(Ordering::Relaxed))
    }
}

#[derive(Clone, Debug)]
pub struct StreamCase { pub file: Vec<u8>, pub cut: usize, pub fail_at: usize, pub short_read: bool, pub early_eof: bool }

/// a reader that counts the bytes requested and can fail the `fail_at`-th I/O call (0 = never): an error, or (short_read)
/// half of the requested bytes followed by an error on the next call
pub struct Probe { inner: Cursor<Vec<u8>>, pub calls: usize, pub fail_at: usize, pub short_read: bool, pub early_eof: bool, pub read_bytes: usize, pending_err: bool, pending_eof: bool }
impl Probe {
    pub fn new(b: &[u8], fail_at: usize, short_read: bool) -> Probe { Probe { inner: Cursor::new(b.to_vec()), calls: 0, fail_at, short_read, early_eof: false, read_bytes: 0, pending_err: false, pending_eof: false } }
    /// the fail_at-th call delivers half of the bytes and the stream then reports end-of-file (Ok(0)) until the next seek
    pub fn with_early_eof(b: &[u8], fail_at: usize) -> Probe { let mut p = Probe::new(b, fail_at, true); p.early_eof = true; p }
    fn err() -> std::io::Error { std::io::Error::new(std::io::ErrorKind::Other, "injected fault") }
}
impl Read for Probe {
    fn read(&mut self, buf: &mut [u8]) -> std::io::Result<usize> {
        if self.pending_eof { return Ok(0); }
        if self.pending_err { self.pending_err = false; return Err(Probe::err()); }
        self.calls += 1;
        if self.fail_at != 0 && self.calls == self.fail_at {
            if self.short_read && buf.len() > 1 { let h = buf.len() / 2; if self.early_eof { self.pending_eof = true; } else { self.pending_err = true; } let n = self.inner.read(&mut buf[..h])?; self.read_bytes += n; return Ok(n); }
            return Err(Probe::err());
        }
        let n = self.inner.read(buf)?; self.read_bytes += n; Ok(n)
    }
}
impl Seek for Probe {
    fn seek(&mut self, pos: SeekFrom) -> std::io::Result<u64> {
        self.pending_eof = false;
        self.calls += 1;
        if self.fail_at != 0 && self.calls == self.fail_at { return Err(Probe::err()); }
        self.inner.seek(pos)
    }
}

/// every query's answer rendered as text (Ok values in full, errors as "Err"); one line per query
fn slice_answers(b: &[u8]) -> Option<Vec<(String, Result<String, ()>)>> {
    let e = ElfBytes::<AnyEndian>::minimal_parse(b).ok()?;
    let mut out: Vec<(String, Result<String, ()>)> = Vec::new();
    let shdrs: Vec<_> = e.section_headers().map(|t| t.iter().collect()).unwrap_or_default();
    let phdrs: Vec<_> = e.segments().map(|t| t.iter().collect()).unwrap_or_default();
    out.push(("ehdr".into(), Ok(format!("{:?}", e.ehdr))));
    out.push(("section_headers".into(), Ok(format!("{:?}", shdrs))));
    out.push(("segments".into(), Ok(format!("{:?}", phdrs))));
    out.push(("shstrtab".into(), e.section_headers_with_strtab().map(|(_, s)| format!("{:?}", s.map(|s| (s.get_raw(0).ok().map(|x| x.to_vec()), s.get_raw(1).ok().map(|x| x.to_vec()), s.get_raw(7).ok().map(|x| x.to_vec()))))).map_err(|_| ())));
    for name in [".a", "b", "zz"] { out.push((format!("by_name {}", name), e.section_header_by_name(name).map(|h| format!("{:?}", h)).map_err(|_| ()))); }
    for (i, sh) in shdrs.iter().enumerate() {
        if sh.sh_flags & 0x800 != 0 { continue; }           // C07 is scoped to sections not flagged SHF_COMPRESSED
        out.push((format!("section_data {}", i), e.section_data(sh).map(|(d, c)| format!("{:?} {:?}", d, c)).map_err(|_| ())));
        out.push((format!("as_strtab {}", i), e.section_data_as_strtab(sh).map(|s| format!("{:?}", (s.get_raw(0).ok().map(|x| x.to_vec()), s.get_raw(1).ok().map(|x| x.to_vec())))).map_err(|_| ())));
        out.push((format!("as_rels {}", i), e.section_data_as_rels(sh).map(|it| format!("{:?}", it.collect::<Vec<_>>())).map_err(|_| ())));
        out.push((format!("as_relas {}", i), e.section_data_as_relas(sh).map(|it| format!("{:?}", it.collect::<Vec<_>>())).map_err(|_| ())));
        out.push((format!("as_notes {}", i), e.section_data_as_notes(sh).map(|it| format!("{:?}", it.collect::<Vec<_>>())).map_err(|_| ())));
    }
    for (i, ph) in phdrs.iter().enumerate() { out.push((format!("seg_notes {}", i), e.segment_data_as_notes(ph).map(|it| format!("{:?}", it.collect::<Vec<_>>())).map_err(|_| ()))); }
    let tab = |r: Result<Option<(elf::symbol::SymbolTable<AnyEndian>, elf::string_table::StringTable)>, elf::ParseError>| r.map(|o| format!("{:?}", o.map(|(t, s)| (t.iter().collect::<Vec<_>>(), s.get_raw(0).ok().map(|x| x.to_vec()), s.get_raw(1).ok().map(|x| x.to_vec()))))).map_err(|_| ());
    out.push(("symbol_table".into(), tab(e.symbol_table())));
    out.push(("dynamic_symbol_table".into(), tab(e.dynamic_symbol_table())));
    out.push(("dynamic".into(), e.dynamic().map(|o| format!("{:?}", o.map(|t| t.iter().collect::<Vec<_>>()))).map_err(|_| ())));
    out.push(("symbol_versions".into(), e.symbol_version_table().map(|o| format!("{:?}", o.map(|t| format!("{:?}", (t.get_requirement(0).ok(), t.get_requirement(1).ok(), t.get_definition(0).ok().map(|d| d.map(|d| (d.hash, d.flags, d.hidden, d.names.map(|n| n.ok().map(|s| s.to_string())).collect::<Vec<_>>())))))))).map_err(|_| ())));
    Some(out)
}
/// the same queries through the stream parser, in the same order and with the same rendering; `designated` receives, per
/// query, an upper bound of the bytes the query designates (for the laziness clause of C08)
fn stream_answers<R: Read + Seek>(s: &mut ElfStream<AnyEndian, R>) -> Vec<(String, Result<String, ()>)> {
    let mut out: Vec<(String, Result<String, ()>)> = Vec::new();
    let shdrs = s.section_headers().clone();
    let phdrs = s.segments().clone();
    out.push(("ehdr".into(), Ok(format!("{:?}", s.ehdr))));
    out.push(("section_headers".into(), Ok(format!("{:?}", shdrs))));
    out.push(("segments".into(), Ok(format!("{:?}", phdrs))));
    out.push(("shstrtab".into(), s.section_headers_with_strtab().map(|(_, t)| format!("{:?}", t.map(|t| (t.get_raw(0).ok().map(|x| x.to_vec()), t.get_raw(1).ok().map(|x| x.to_vec()), t.get_raw(7).ok().map(|x| x.to_vec()))))).map_err(|_| ())));
    for name in [".a", "b", "zz"] { out.push((format!("by_name {}", name), s.section_header_by_name(name).map(|h| format!("{:?}", h.copied())).map_err(|_| ()))); }
    for (i, sh) in shdrs.iter().enumerate() {
        if sh.sh_flags & 0x800 != 0 { continue; }
        out.push((format!("section_data {}", i), s.section_data(sh).map(|(d, c)| format!("{:?} {:?}", d, c)).map_err(|_| ())));
        out.push((format!("as_strtab {}", i), s.section_data_as_strtab(sh).map(|t| format!("{:?}", (t.get_raw(0).ok().map(|x| x.to_vec()), t.get_raw(1).ok().map(|x| x.to_vec())))).map_err(|_| ())));
        out.push((format!("as_rels {}", i), s.section_data_as_rels(sh).map(|it| format!("{:?}", it.collect::<Vec<_>>())).map_err(|_| ())));
        out.push((format!("as_relas {}", i), s.section_data_as_relas(sh).map(|it| format!("{:?}", it.collect::<Vec<_>>())).map_err(|_| ())));
        out.push((format!("as_notes {}", i), s.section_data_as_notes(sh).map(|it| format!("{:?}", it.collect::<Vec<_>>())).map_err(|_| ())));
    }
    for (i, ph) in phdrs.iter().enumerate() { out.push((format!("seg_notes {}", i), s.segment_data_as_notes(ph).map(|it| format!("{:?}", it.collect::<Vec<_>>())).map_err(|_| ()))); }
    out.push(("symbol_table".into(), s.symbol_table().map(|o| format!("{:?}", o.map(|(t, st)| (t.iter().collect::<Vec<_>>(), st.get_raw(0).ok().map(|x| x.to_vec()), st.get_raw(1).ok().map(|x| x.to_vec()))))).map_err(|_| ())));
    out.push(("dynamic_symbol_table".into(), s.dynamic_symbol_table().map(|o| format!("{:?}", o.map(|(t, st)| (t.iter().collect::<Vec<_>>(), st.get_raw(0).ok().map(|x| x.to_vec()), st.get_raw(1).ok().map(|x| x.to_vec()))))).map_err(|_| ())));
    out.push(("dynamic".into(), s.dynamic().map(|o| format!("{:?}", o.map(|t| t.iter().collect::<Vec<_>>()))).map_err(|_| ())));
    out.push(("symbol_versions".into(), s.symbol_version_table().map(|o| format!("{:?}", o.map(|t| format!("{:?}", (t.get_requirement(0).ok(), t.get_requirement(1).ok(), t.get_definition(0).ok().map(|d| d.map(|d| (d.hash, d.flags, d.hidden, d.names.map(|n| n.ok().map(|s| s.to_string())).collect::<Vec<_>>())))))))).map_err(|_| ())));
    out
}

/// `VERIF_ORACLE_PROP=Cxx` restricts the oracle to the clauses of that property (so that a failure of another property found
/// first in the same case does not hide it); unset = all clauses
fn on(p: &str) -> bool { match std::env::var("VERIF_ORACLE_PROP") { Ok(v) if !v.is_empty() && v != "C01" => v == p, _ => true } }
pub fn check_stream(c: &StreamCase) -> Result<(), String> {
    let b = &c.file[..c.cut.min(c.file.len())];
    let slice = slice_answers(b);
    // ---- C07 / C05: fault-free stream against the slice parser on the same bytes
    let mut st = ElfStream::<AnyEndian, _>::open_stream(Probe::new(b, 0, false));
    if on("C07") { match (&slice, &st) {
        (Some(_), Err(e)) => return Err(format!("C07: the slice parser opens these {} bytes, the stream parser does not: {:?}", b.len(), e)),
        (None, Ok(_)) => return Err(format!("C07: the stream parser opens these {} bytes, the slice parser does not", b.len())),
        _ => {}
    } }
    // ---- C07 / C10: a Read+Seek handle need not be positioned at offset 0 when it is handed over (a re-used handle, a peeked file):
    //      opening must not depend on the initial position -- same success, same header, and (C10) the same defect reported
    if on("C07") || on("C10") {
        let pos = (c.fail_at as u64 * 7 + 1 + c.cut as u64) % (b.len() as u64 + 1);
        let mut p = Probe::new(b, 0, false); p.inner.set_position(pos);
        let st2 = ElfStream::<AnyEndian, _>::open_stream(p);
        let tag = if on("C07") { "C07" } else { "C10" };
        match (&st, &st2) {
            (Ok(a), Ok(b2)) => if a.ehdr != b2.ehdr { return Err(format!("{}: opening the same {} bytes through a handle positioned at {} yields a different file header", tag, b.len(), pos)); },
            (Err(e1), Err(e2)) => if on("C10") && format!("{:?}", e1) != format!("{:?}", e2) { return Err(format!("C10: the defect reported for these {} bytes depends on the handle's initial position ({}): {:?} at 0, {:?} there", b.len(), pos, e1, e2)); },
            (a, b2) => return Err(format!("{}: opening the same {} bytes succeeds={} through a handle at offset 0 but succeeds={} through a handle positioned at {}", tag, b.len(), a.is_ok(), b2.is_ok(), pos)),
        }
    }
    // ---- C05 (stream): the parsed header vectors are exactly the tables the header declares (independent decode)
    if let (true, Some((want_sh, want_ph))) = (on("C05"), crate::slice_oracle::c05_expect(b)) {
        match (&st, &want_sh, &want_ph) {
            (Ok(s), Ok(sh), Ok(ph)) => {
                if s.section_headers().len() as u64 != sh.map_or(0, |x| x.1) { return Err(format!("C05: the stream parser holds {} section headers, the header declares {}", s.section_headers().len(), sh.map_or(0, |x| x.1))); }
                if s.segments().len() as u64 != ph.map_or(0, |x| x.1) { return Err(format!("C05: the stream parser holds {} program headers, the header declares {}", s.segments().len(), ph.map_or(0, |x| x.1))); }
            }
            (Ok(_), _, _) => return Err("C05: the stream parser opens a file whose declared header table has a wrong entry size or does not fit".into()),
            (Err(x), Ok(_), Ok(_)) => return Err(format!("C05: the stream parser fails to open ({:?}) although both declared tables have the right entry size and fit", x)),
            _ => {}
        }
    }
    let mut reference: Option<Vec<(String, Result<String, ()>)>> = None;
    // C07's query clause is scoped to files whose section header table is absent or non-empty
    // ... and to sections not flagged SHF_COMPRESSED: a file in which any section header (as the slice parser sees the table) carries the flag is left to the
    // header-level clauses (a corruption or a bit flip can set the flag on any section, e.g. on .dynamic)
    let in_scope = match ElfBytes::<AnyEndian>::minimal_parse(b) { Ok(e) => e.section_headers().map_or(true, |t| t.len() > 0 && t.iter().all(|s| s.sh_flags & elf::abi::SHF_COMPRESSED as u64 == 0)), Err(_) => true };
    if let (Some(sl), Ok(s), true) = (&slice, st.as_mut(), in_scope) {
        let got = stream_answers(s);
        if sl.len() != got.len() { return Err(format!("C07: the two parsers see different tables (query lists differ: {} vs {})", sl.len(), got.len())); }
        for ((q, a), (_, g)) in sl.iter().zip(got.iter()) {
            if on("C07") { match (a, g) {
                (Ok(x), Ok(y)) => if x != y { return Err(format!("C07: `{}` differs: slice {} / stream {}", q, trunc(x), trunc(y))); },
                (Ok(x), Err(())) => return Err(format!("C07: `{}` succeeds on the slice ({}) but is an error on the stream", q, trunc(x))),
                _ => {}
            } }
        }
        // repeated queries, in another order, give the same answers (cache)
        let again = stream_answers(s);
        if on("C07") && again != got { return Err("C07: repeating the queries on the same stream changes an answer".into()); }
        reference = Some(got);
    }
    // ---- C18 (stream): a proper prefix gives an error or the same answer
    if let (true, Some(full)) = (on("C18"), &reference) {
        if c.cut >= c.file.len() {
            for cutp in [b.len() - 1, b.len() - 4, b.len() - 9, b.len() - 25, b.len() - 47, b.len() * 3 / 4, b.len() / 2, 200, 100] {
                if cutp >= b.len() { continue; }
                if let Ok(mut s2) = ElfStream::<AnyEndian, _>::open_stream(Probe::new(&b[..cutp], 0, false)) {
                    let got = stream_answers(&mut s2);
                    for (q, g) in got.iter() { if let Ok(y) = g { match full.iter().find(|(q2, _)| q2 == q) {
                        Some((_, Ok(x))) if x == y => {}
                        Some((_, r)) => return Err(format!("C18: on the {}-byte prefix `{}` answers {} but the complete {}-byte file answers {}", cutp, q, trunc(y), b.len(), match r { Ok(x) => trunc(x), Err(()) => "Err".into() })),
                        None => return Err(format!("C18: on the {}-byte prefix the query `{}` exists but not on the complete file", cutp, q)) } } }
                }
            }
        }
    }
    // ---- C17: a fault at the fail_at-th I/O call: that call's operation is an error; afterwards every answer is an error or the fault-free one
    if c.fail_at != 0 && on("C17") {
        if let Some(full) = &reference {
            match ElfStream::<AnyEndian, _>::open_stream(if c.early_eof { Probe::with_early_eof(b, c.fail_at) } else { Probe::new(b, c.fail_at, c.short_read) }) {
                Err(_) => {}
                Ok(mut s3) => {
                    let got = stream_answers(&mut s3);       // the fault strikes somewhere in here (or not at all)
                    let after = stream_answers(&mut s3);     // the reader is healthy again
                    for (phase, ans) in [("during", &got), ("after", &after)] {
                        for (q, g) in ans.iter() { if let Ok(y) = g { match full.iter().find(|(q2, _)| q2 == q) {
                            Some((_, Ok(x))) if x == y => {}
                            Some((_, r)) => return Err(format!("C17: with I/O call #{} failing{}, `{}` ({} the fault) answers {} but the fault-free answer is {}", c.fail_at, if c.early_eof { " (half the bytes, then end-of-file)" } else if c.short_read { " after a short read" } else { "" }, q, phase, trunc(y), match r { Ok(x) => trunc(x), Err(()) => "Err".into() })),
                            None => {} } } }
                    }
                }
            }
        }
    }
    // ---- C08: no single allocation exceeds a small multiple of the stream length plus a few KiB, whatever the headers claim
    if on("C08") {
        let limit = 4 * b.len() + 65536;      // "a small constant multiple of the stream's length plus a fixed few-KiB overhead", read generously
        let (st2, peak) = alloc_probe::measure(|| ElfStream::<AnyEndian, _>::open_stream(Cursor::new(b.to_vec())));
        if peak > limit { return Err(format!("C08: open_stream made a single allocation of {} bytes on a {}-byte stream (limit 4*len + 64 KiB = {})", peak, b.len(), limit)); }
        if let Ok(mut s) = st2 {
            let shdrs = s.section_headers().clone(); let phdrs = s.segments().clone();
            let (_, peak) = alloc_probe::measure(|| {
                for sh in shdrs.iter() { let _ = s.section_data(sh); let _ = s.section_data_as_notes(sh); let _ = s.section_data_as_rels(sh); }
                for ph in phdrs.iter() { let _ = s.segment_data_as_notes(ph); }
                let _ = s.symbol_table(); let _ = s.dynamic_symbol_table(); let _ = s.dynamic(); let _ = s.symbol_version_table(); let _ = s.section_header_by_name(".a");
            });
            if peak > limit { return Err(format!("C08: a query made a single allocation of {} bytes on a {}-byte stream (limit 4*len + 64 KiB = {})", peak, b.len(), limit)); }
        }
    }
    // ---- C08: opening reads no more than the header and the two tables (+ shdr[0] twice)
    if on("C08") {
        let counter = std::rc::Rc::new(std::cell::Cell::new(0usize));
        struct Counting { inner: Cursor<Vec<u8>>, n: std::rc::Rc<std::cell::Cell<usize>> }
        impl Read for Counting { fn read(&mut self, buf: &mut [u8]) -> std::io::Result<usize> { self.n.set(self.n.get() + buf.len()); self.inner.read(buf) } }
        impl Seek for Counting { fn seek(&mut self, p: SeekFrom) -> std::io::Result<u64> { self.inner.seek(p) } }
        if let Ok(mut s) = ElfStream::<AnyEndian, _>::open_stream(Counting { inner: Cursor::new(b.to_vec()), n: counter.clone() }) {
            let bound = 64 + 2 * 64 + 64 * s.section_headers().len() + 56 * s.segments().len();
            if counter.get() > bound { return Err(format!("C08: open_stream requested {} bytes from the reader; header + shdr[0] (twice) + the two tables are {} bytes", counter.get(), bound)); }
            let shdrs = s.section_headers().clone();
            for (i, sh) in shdrs.iter().enumerate() {
                if sh.sh_type == 8 { continue; }
                let before = counter.get();
                let _ = s.section_data(sh);
                let used = counter.get() - before;
                if used as u64 > sh.sh_size { return Err(format!("C08: section_data of section {} (sh_size {}) requested {} bytes from the reader", i, sh.sh_size, used)); }
            }
            let before = counter.get();
            let _ = s.symbol_table(); let _ = s.dynamic_symbol_table(); let _ = s.dynamic(); let _ = s.symbol_version_table(); let _ = s.section_header_by_name(".a");
            let total: u64 = shdrs.iter().map(|h| h.sh_size).fold(0u64, |a, x| a.saturating_add(x)).saturating_add(s.segments().iter().map(|p| p.p_filesz).fold(0u64, |a, x| a.saturating_add(x)));
            if (counter.get() - before) as u64 > total.saturating_mul(2) { return Err(format!("C08: the table queries requested {} bytes; all sections and segments together designate {}", counter.get() - before, total)); }
        }
    }
    Ok(())
}
fn trunc(s: &str) -> String { if s.len() > 160 { format!("{}…", &s[..160]) } else { s.to_string() } }

// ------------------------------------------------------------------------------------------------ the family of inputs
struct Lcg(u64);
impl Lcg { fn next(&mut self, n: u64) -> u64 { self.0 = self.0.wrapping_mul(6364136223846793005).wrapping_add(1442695040888963407); (self.0 >> 33) % n } }
fn put(f: &mut [u8], off: usize, w: usize, v: u64) { f[off..off + w].copy_from_slice(&v.to_le_bytes()[..w]); }

/// ELF64/LE files: [0,64) header, [64,192) data (string-table-like and table-like bytes), section headers at 192 (0..=3
/// entries), one optional program header after them.  Header fields, section types / links / names / windows / entry sizes,
/// truncation point and injected fault are drawn from small sets that include the escapes (e_shnum == 0, e_phnum == 0xffff,
/// e_shstrndx == 0xffff), out-of-range links and names, windows that end past the end of the file, and wrong entry sizes.
pub fn enumerate(n: usize, seed: u64) -> Vec<StreamCase> {
    let mut r = Lcg(seed);
    let mut out = Vec::with_capacity(n);
    const TYPES: [u32; 12] = [0, 1, 2, 3, 11, 6, 7, 9, 4, 8, 0x6fffffff, 0x6ffffffe];
    for _ in 0..n {
        let nsec = [0usize, 1, 2, 3, 3][r.next(5) as usize];
        let nph = [0usize, 1, 1][r.next(3) as usize];
        let shoff = 192usize; let phoff = shoff + 64 * nsec.max(1);
        let len = phoff + 56 * nph + 48;
        let mut f = vec![0u8; len];
        for i in len - 48..len { f[i] = (i as u8).wrapping_mul(13) | 1; }
        f[len - 8..].copy_from_slice(&[0, b'q', b'r', 0, 0xc3, 0xa9, b's', 0]);        // 48 data bytes at the very end of the file, closing with a small string table
        f[..8].copy_from_slice(&[0x7f, b'E', b'L', b'F', 2, 1, 1, 0]);
        put(&mut f, 16, 2, 2); put(&mut f, 18, 2, 62); put(&mut f, 20, 4, 1);
        // data region: 64.. a small string table "\0.a\0b\0\0…", then patterned bytes
        for i in 64..192 { f[i] = (i as u8).wrapping_mul(7) | 1; }
        f[64..72].copy_from_slice(&[0, b'.', b'a', 0, b'b', 0, 0, b'c']);
        f[100] = 0; f[130] = 0xe9;
        let shnum_escape = nsec > 0 && r.next(5) == 0;
        let phnum_mode = r.next(6);                              // 5: PN_XNUM escape
        if nsec > 0 || r.next(4) == 0 { put(&mut f, 40, 8, shoff as u64); }
        put(&mut f, 58, 2, [64u64, 64, 64, 0, 40][r.next(5) as usize]);
        put(&mut f, 60, 2, if shnum_escape { 0 } else if r.next(12) == 0 { [0xfff0u64, 4000, 9][r.next(3) as usize] } else { nsec as u64 });
        put(&mut f, 62, 2, [0u64, 1, 2, 0xffff, 0xff00, (nsec as u64).saturating_sub(1)][r.next(6) as usize]);
        if nph > 0 { put(&mut f, 32, 8, phoff as u64); put(&mut f, 54, 2, [56u64, 56, 56, 32][r.next(4) as usize]); put(&mut f, 56, 2, if phnum_mode == 5 { 0xffff } else { nph as u64 }); }
        else if phnum_mode == 5 { put(&mut f, 56, 2, 0xffff); put(&mut f, 32, 8, [0u64, phoff as u64][r.next(2) as usize]); }
        else if phnum_mode == 4 { put(&mut f, 32, 8, phoff as u64); put(&mut f, 54, 2, [56u64, 32, 0][r.next(3) as usize]); }   // a program header table of zero entries
        for i in 0..nsec {
            let b = shoff + 64 * i;
            put(&mut f, b, 4, [1u64, 4, 7, 0, 300, 6][r.next(6) as usize]);                 // sh_name
            put(&mut f, b + 4, 4, TYPES[r.next(12) as usize] as u64);
            put(&mut f, b + 8, 8, [0u64, 0, 2, 6][r.next(4) as usize]);                    // sh_flags: never SHF_COMPRESSED (C07 scopes such sections out)
            let (o, s) = [(64u64, 8u64), (64, 48), (72, 48), (120, 24), (64, 0), (len as u64 - 8, 64), (u64::MAX - 7, 16), (150, 2), (96, 96), (len as u64 - 8, 8), (len as u64 - 48, 48), (len as u64 - 48, 24)][r.next(12) as usize];
            put(&mut f, b + 24, 8, o); put(&mut f, b + 32, 8, s);
            put(&mut f, b + 40, 4, [0u64, 1, 2, 3, 9][r.next(5) as usize]);               // sh_link
            put(&mut f, b + 44, 4, [0u64, 1, 2, 70000][r.next(4) as usize]);              // sh_info
            put(&mut f, b + 48, 8, [0u64, 1, 4, 8][r.next(4) as usize]);                  // sh_addralign
            put(&mut f, b + 56, 8, [24u64, 24, 16, 2, 0, 8][r.next(6) as usize]);         // sh_entsize
        }
        if shnum_escape { put(&mut f, shoff + 32, 8, if r.next(8) == 0 { [1u64 << 20, 1 << 40, u64::MAX][r.next(3) as usize] } else { nsec as u64 }); }
        if phnum_mode == 5 && nsec > 0 { put(&mut f, shoff + 44, 4, nph as u64); }
        if nph > 0 {
            let b = phoff;
            put(&mut f, b, 4, [1u64, 2, 4, 4, 0x6474e553][r.next(5) as usize]);
            let (o, s) = [(64u64, 48u64), (120, 24), (len as u64 - 4, 32), (64, 0)][r.next(4) as usize];
            put(&mut f, b + 8, 8, o); put(&mut f, b + 32, 8, s); put(&mut f, b + 40, 8, [0u64, s, s + 8][r.next(3) as usize]); put(&mut f, b + 48, 8, [0u64, 4, 8][r.next(3) as usize]);
        }
        let cut = if r.next(4) == 0 { [len - 1, len - 9, len / 2, 100, 63, 17][r.next(6) as usize] } else { len };
        let fail_at = if r.next(2) == 0 { 1 + r.next(24) as usize } else { 0 };
        let kind = r.next(3);
        out.push(StreamCase { file: f, cut, fail_at, short_read: kind == 1, early_eof: kind == 2 });
    }
    out
}

/// a second family for the stream comparison: the complete small objects of c01_oracle (both classes, both byte orders, every
/// section kind, boundary-value corruptions; no compressed section), each with a cut point and at most one injected fault
pub fn enumerate_x(n: usize, seed: u64) -> Vec<StreamCase> {
    let mut r = Lcg(seed ^ 0x57e); 
    crate::c01_oracle::enumerate_files(n, seed, false).into_iter().map(|fc| {
        let len = fc.file.len();
        let cut: usize = if r.next(4) == 0 { r.next(len as u64 + 1) as usize } else { len };
        let mut fail_at = if r.next(3) == 0 { 1 + r.next(40) as usize } else { 0 };
        let mut file = fc.file; let mut cut = cut;
        // size boundaries: once in eighty cases the last section (.zdebug, uncompressed here) is moved to the end of the file and made
        // 64 KiB .. 192 KiB long (a reader that works in 2^16-byte pieces, or narrows a length to 16 bits, shows there and nowhere below),
        // with a fault that tends to land late in the run
        if r.next(80) == 0 {
            if let Ok(e) = ElfBytes::<AnyEndian>::minimal_parse(&file) {
                let (shoff, shent, shnum) = (e.ehdr.e_shoff as usize, e.ehdr.e_shentsize as usize, e.ehdr.e_shnum as usize);
                let (elf64, little) = (file[4] == 2, file[5] == 1);
                if shnum == 16 && shoff + 16 * shent <= file.len() && (shent == 64 || shent == 40) {
                    let big = [65536usize, 65537, 70000, 131072, 131073, 196608 + 5][r.next(6) as usize];
                    let at = file.len(); file.resize(at + big, 0xA5);
                    let h = shoff + 15 * shent;
                    let put = |f: &mut Vec<u8>, o: usize, w: usize, v: u64| { let b = v.to_le_bytes(); for k in 0..w { f[o + k] = if little { b[k] } else { b[w - 1 - k] }; } };
                    if elf64 { put(&mut file, h + 24, 8, at as u64); put(&mut file, h + 32, 8, big as u64); } else { put(&mut file, h + 16, 4, at as u64); put(&mut file, h + 20, 4, big as u64); }
                    cut = file.len();
                    if r.next(4) != 0 { fail_at = 8 + r.next(120) as usize; }
                }
            }
        }
        StreamCase { file, cut, fail_at, short_read: r.next(2) == 0, early_eof: r.next(3) == 0 }
    }).collect()
}
