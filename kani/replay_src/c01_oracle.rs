//! Native bounded oracle for C01 (the slice parser is total), against the real code: a small but complete ELF object
//! (both classes, both byte orders: dynsym/dynstr, versym/verneed/verdef, SysV and GNU hash, dynamic, note, rel/rela, symtab/strtab,
//! a compressed section; PT_LOAD / PT_DYNAMIC / PT_NOTE) with one to three header fields replaced by boundary values
//! (0, 1, 2, 2^31, 2^32-1, 2^63, 2^64-1, 2^64-8, the file length and its neighbours -- truncated to the field width), up to two
//! 16/32-bit words inside a section's bytes replaced likewise, optionally truncated; then EVERY public accessor reachable from ElfBytes is called and every table / iterator / lookup is walked.
//! The only clause is the property's: no call panics (overflow checks and debug assertions are on in the search build).
//! Used as bounded cross-validation / replay search only: it produces failing inputs, never an OK.
use elf::abi;
use elf::endian::AnyEndian;
use elf::ElfBytes;

struct Lcg(u64);
impl Lcg { fn next(&mut self, n: u64) -> u64 { self.0 = self.0.wrapping_mul(6364136223846793005).wrapping_add(1442695040888963407); (self.0 >> 33) % n } }

#[derive(Debug, Clone)]
pub struct FileCase { pub file: Vec<u8>, pub what: String }

struct W { b: Vec<u8>, little: bool, elf64: bool }
impl W {
    fn u8(&mut self, x: u8) { self.b.push(x) }
    fn u16(&mut self, x: u16) { if self.little { self.b.extend_from_slice(&x.to_le_bytes()) } else { self.b.extend_from_slice(&x.to_be_bytes()) } }
    fn u32(&mut self, x: u32) { if self.little { self.b.extend_from_slice(&x.to_le_bytes()) } else { self.b.extend_from_slice(&x.to_be_bytes()) } }
    fn u64(&mut self, x: u64) { if self.little { self.b.extend_from_slice(&x.to_le_bytes()) } else { self.b.extend_from_slice(&x.to_be_bytes()) } }
    fn word(&mut self, x: u64) { if self.elf64 { self.u64(x) } else { self.u32(x as u32) } }
    fn pad(&mut self, a: usize) { while self.b.len() % a != 0 { self.b.push(0) } }
}

/// one section of the base object: (name offset in .shstrtab, type, flags, link, info, addralign, entsize, bytes)
struct Sec { name: u32, ty: u32, flags: u64, link: u32, info: u32, align: u64, entsize: u64, data: Vec<u8> }

fn djb2(name: &[u8]) -> u32 { let mut h: u32 = 5381; for &c in name { h = h.wrapping_mul(33).wrapping_add(c as u32); } h }
fn elf_hash(name: &[u8]) -> u32 { let mut h: u32 = 0; for &c in name { h = (h << 4).wrapping_add(c as u32); let g = h & 0xf000_0000; if g != 0 { h ^= g >> 24; } h &= !g; } h }

/// (file, offsets of the section header table, program header table) for class / byte order
fn base(little: bool, elf64: bool) -> (Vec<u8>, usize, usize, usize, usize, Vec<(usize, usize)>) { base_with(little, elf64, true) }
fn base_with(little: bool, elf64: bool, compressed: bool) -> (Vec<u8>, usize, usize, usize, usize, Vec<(usize, usize)>) {
    let mk = || W { b: Vec::new(), little, elf64 };
    let shstr: &[u8] = b"\0.shstrtab\0.dynsym\0.dynstr\0.gnu.version\0.gnu.version_r\0.gnu.version_d\0.hash\0.gnu.hash\0.dynamic\0.note\0.rela\0.rel\0.symtab\0.strtab\0.zdebug\0";
    let nm = |s: &str| -> u32 { let pat = [s.as_bytes(), b"\0"].concat(); shstr.windows(pat.len()).position(|w| w == &pat[..]).unwrap() as u32 };
    let dynstr: &[u8] = b"\0foo\0bar\0libc.so\0V1\0V2\0";
    let names: [&[u8]; 3] = [b"", b"foo", b"bar"];
    let sym = |w: &mut W, name: u32, val: u64| { if elf64 { w.u32(name); w.u8(0x12); w.u8(0); w.u16(1); w.u64(val); w.u64(8); } else { w.u32(name); w.u32(val as u32); w.u32(8); w.u8(0x12); w.u8(0); w.u16(1); } };
    let mut dynsym = mk(); sym(&mut dynsym, 0, 0); sym(&mut dynsym, 1, 0x1000); sym(&mut dynsym, 5, 0x2000);
    let mut versym = mk(); versym.u16(0); versym.u16(2); versym.u16(0x8003);
    // verneed: one record (file "libc.so" at 9) with one aux (other 2, name "V1" at 17)
    let mut need = mk(); need.u16(1); need.u16(1); need.u32(9); need.u32(16); need.u32(0); need.u32(0x1234); need.u16(0); need.u16(2); need.u32(17); need.u32(0);
    // verdef: one record (ndx 3, one aux "V2" at 20)
    let mut def = mk(); def.u16(1); def.u16(0); def.u16(3); def.u16(1); def.u32(0x4321); def.u32(20); def.u32(0); def.u32(20); def.u32(0);
    // SysV hash over the 3 dynsyms, 2 buckets
    let mut hash = mk(); { let nb = 2u32; let mut buckets = vec![0u32; 2]; let mut chains = vec![0u32; 3];
        for k in 1..3 { let b = (elf_hash(names[k]) % nb) as usize; chains[k] = buckets[b]; buckets[b] = k as u32; }
        hash.u32(nb); hash.u32(3); for x in buckets { hash.u32(x); } for x in chains { hash.u32(x); } }
    // GNU hash: nbucket 1, symoffset 1, one bloom word (all ones), shift 6
    let mut gnu = mk(); { gnu.u32(1); gnu.u32(1); gnu.u32(1); gnu.u32(6); gnu.word(u64::MAX); gnu.u32(1);
        gnu.u32(djb2(names[1]) & !1); gnu.u32(djb2(names[2]) | 1); }
    let mut dynamic = mk(); for (t, v) in [(abi::DT_NEEDED, 9u64), (abi::DT_STRTAB, 0x400), (abi::DT_NULL, 0)] { dynamic.word(t as u64); dynamic.word(v); }
    let mut note = mk(); note.u32(4); note.u32(4); note.u32(3); note.b.extend_from_slice(b"GNU\0"); note.b.extend_from_slice(&[1, 2, 3, 4]);
    let mut rela = mk(); rela.word(0x10); rela.word(if elf64 { (1u64 << 32) | 7 } else { (1 << 8) | 7 }); rela.word(4);
    let mut rel = mk(); rel.word(0x20); rel.word(if elf64 { (2u64 << 32) | 8 } else { (2 << 8) | 8 });
    let mut symtab = mk(); sym(&mut symtab, 0, 0); sym(&mut symtab, 1, 0x3000);
    let strtab: &[u8] = b"\0main\0";
    let mut z = mk(); z.u32(1); if elf64 { z.u32(0); } z.word(64); z.word(1); z.b.extend_from_slice(&[0x78, 0x9c, 1, 2, 3]);
    let (se, re, rae, de) = if elf64 { (24u64, 16u64, 24u64, 16u64) } else { (16, 8, 12, 8) };
    let secs = vec![
        Sec { name: 0, ty: 0, flags: 0, link: 0, info: 0, align: 0, entsize: 0, data: vec![] },
        Sec { name: nm(".shstrtab"), ty: abi::SHT_STRTAB, flags: 0, link: 0, info: 0, align: 1, entsize: 0, data: shstr.to_vec() },
        Sec { name: nm(".dynsym"), ty: abi::SHT_DYNSYM, flags: 2, link: 3, info: 1, align: 8, entsize: se, data: dynsym.b },
        Sec { name: nm(".dynstr"), ty: abi::SHT_STRTAB, flags: 2, link: 0, info: 0, align: 1, entsize: 0, data: dynstr.to_vec() },
        Sec { name: nm(".gnu.version"), ty: abi::SHT_GNU_VERSYM, flags: 2, link: 2, info: 0, align: 2, entsize: 2, data: versym.b },
        Sec { name: nm(".gnu.version_r"), ty: abi::SHT_GNU_VERNEED, flags: 2, link: 3, info: 1, align: 4, entsize: 0, data: need.b },
        Sec { name: nm(".gnu.version_d"), ty: abi::SHT_GNU_VERDEF, flags: 2, link: 3, info: 1, align: 4, entsize: 0, data: def.b },
        Sec { name: nm(".hash"), ty: abi::SHT_HASH, flags: 2, link: 2, info: 0, align: 4, entsize: 4, data: hash.b },
        Sec { name: nm(".gnu.hash"), ty: abi::SHT_GNU_HASH, flags: 2, link: 2, info: 0, align: 8, entsize: 0, data: gnu.b },
        Sec { name: nm(".dynamic"), ty: abi::SHT_DYNAMIC, flags: 3, link: 3, info: 0, align: 8, entsize: de, data: dynamic.b },
        Sec { name: nm(".note"), ty: abi::SHT_NOTE, flags: 2, link: 0, info: 0, align: 4, entsize: 0, data: note.b },
        Sec { name: nm(".rela"), ty: abi::SHT_RELA, flags: 2, link: 2, info: 0, align: 8, entsize: rae, data: rela.b },
        Sec { name: nm(".rel"), ty: abi::SHT_REL, flags: 2, link: 2, info: 0, align: 8, entsize: re, data: rel.b },
        Sec { name: nm(".symtab"), ty: abi::SHT_SYMTAB, flags: 0, link: 14, info: 1, align: 8, entsize: se, data: symtab.b },
        Sec { name: nm(".strtab"), ty: abi::SHT_STRTAB, flags: 0, link: 0, info: 0, align: 1, entsize: 0, data: strtab.to_vec() },
        Sec { name: nm(".zdebug"), ty: abi::SHT_PROGBITS, flags: if compressed { abi::SHF_COMPRESSED as u64 } else { 0 }, link: 0, info: 0, align: 1, entsize: 0, data: z.b },
    ];
    let (ehsize, phentsize, shentsize) = if elf64 { (64usize, 56usize, 64usize) } else { (52, 32, 40) };
    let nph = 3usize;
    let mut w = mk();
    w.b.resize(ehsize + nph * phentsize, 0);
    let mut offs = Vec::new();
    for s in secs.iter() { w.pad(8); offs.push(w.b.len()); w.b.extend_from_slice(&s.data); }
    w.pad(8);
    let shoff = w.b.len();
    for (i, s) in secs.iter().enumerate() {
        w.u32(s.name); w.u32(s.ty); w.word(s.flags); w.word(0); w.word(if i == 0 { 0 } else { offs[i] as u64 }); w.word(s.data.len() as u64);
        w.u32(s.link); w.u32(s.info); w.word(s.align); w.word(s.entsize);
    }
    let total = w.b.len();
    // ELF header
    let mut h = mk();
    h.b.extend_from_slice(&[0x7f, b'E', b'L', b'F', if elf64 { 2 } else { 1 }, if little { 1 } else { 2 }, 1, 0, 0, 0, 0, 0, 0, 0, 0, 0]);
    h.u16(3); h.u16(62); h.u32(1); h.word(0); h.word(ehsize as u64); h.word(shoff as u64); h.u32(0);
    h.u16(ehsize as u16); h.u16(phentsize as u16); h.u16(nph as u16); h.u16(shentsize as u16); h.u16(secs.len() as u16); h.u16(1);
    // program headers: PT_LOAD over the whole file, PT_DYNAMIC = .dynamic, PT_NOTE = .note
    for (ty, off, sz, al) in [(abi::PT_LOAD, 0usize, total, 0x1000u64), (abi::PT_DYNAMIC, offs[9], secs[9].data.len(), 8), (abi::PT_NOTE, offs[10], secs[10].data.len(), 4)] {
        if elf64 { h.u32(ty); h.u32(4); h.u64(off as u64); h.u64(0); h.u64(0); h.u64(sz as u64); h.u64(sz as u64); h.u64(al); }
        else { h.u32(ty); h.u32(off as u32); h.u32(0); h.u32(0); h.u32(sz as u32); h.u32(sz as u32); h.u32(4); h.u32(al as u32); }
    }
    w.b[..h.b.len()].copy_from_slice(&h.b);
    let extents: Vec<(usize, usize)> = secs.iter().enumerate().map(|(i, s)| (offs[i], s.data.len())).collect();
    (w.b, shoff, shentsize, ehsize, phentsize, extents)
}

/// every public accessor reachable from ElfBytes; results are ignored -- the clause is "no panic"
pub fn exercise(b: &[u8]) -> Result<(), String> {
    let f = match ElfBytes::<AnyEndian>::minimal_parse(b) { Ok(f) => f, Err(_) => return Ok(()) };
    let mut sink = 0usize;
    let shdrs: Vec<elf::section::SectionHeader> = f.section_headers().map(|t| { sink += t.len(); let _ = t.is_empty(); let _ = t.get(t.len()); t.iter().collect() }).unwrap_or_default();
    let phdrs: Vec<elf::segment::ProgramHeader> = f.segments().map(|t| { sink += t.len(); let _ = t.get(usize::MAX); t.iter().collect() }).unwrap_or_default();
    if let Ok((_, Some(st))) = f.section_headers_with_strtab() { for s in shdrs.iter() { let _ = st.get(s.sh_name as usize); let _ = st.get_raw(s.sh_name as usize); } }
    for n in [".dynsym", ".symtab", ".nope", ""] { let _ = f.section_header_by_name(n); }
    let lookups = |symtab: &elf::symbol::SymbolTable<AnyEndian>, strs: &elf::string_table::StringTable, sysv: Option<&elf::hash::SysVHashTable<AnyEndian>>, gnu: Option<&elf::hash::GnuHashTable<AnyEndian>>| {
        for name in [&b"foo"[..], b"bar", b"main", b"", b"zz\xff"] {
            if let Some(t) = sysv { let _ = t.find(name, symtab, strs); }
            if let Some(t) = gnu { let _ = t.find(name, symtab, strs); }
        }
    };
    if let Ok(c) = f.find_common_data() {
        for (t, s) in [(&c.symtab, &c.symtab_strs), (&c.dynsyms, &c.dynsyms_strs)] {
            if let Some(t) = t { for sym in t.iter() { sink += sym.st_name as usize & 1; let _ = (sym.st_symtype(), sym.st_bind(), sym.st_vis(), sym.is_undefined()); if let Some(s) = s { let _ = s.get(sym.st_name as usize); } } let _ = t.get(t.len()); }
        }
        if let Some(d) = &c.dynamic { for e in d.iter() { sink += (e.d_tag as usize) & 1; let _ = (e.d_val(), e.d_ptr()); } }
        if let (Some(t), Some(s)) = (&c.dynsyms, &c.dynsyms_strs) { lookups(t, s, c.sysv_hash.as_ref(), c.gnu_hash.as_ref()); }
        if let (Some(t), Some(s)) = (&c.symtab, &c.symtab_strs) { lookups(t, s, c.sysv_hash.as_ref(), c.gnu_hash.as_ref()); }
    }
    if let Ok(Some((t, s))) = f.symbol_table() { for sym in t.iter() { let _ = s.get_raw(sym.st_name as usize); } }
    if let Ok(Some((t, s))) = f.dynamic_symbol_table() { for sym in t.iter() { let _ = s.get_raw(sym.st_name as usize); } }
    if let Ok(Some(d)) = f.dynamic() { sink += d.iter().count(); }
    if let Ok(Some(v)) = f.symbol_version_table() {
        for i in 0..6usize {
            if let Ok(Some(r)) = v.get_requirement(i) { sink += r.name.len() + r.file.len(); }
            if let Ok(Some(d)) = v.get_definition(i) { sink += d.names.take(4096).filter(|n| n.is_ok()).count(); }
        }
        let _ = v.get_requirement(usize::MAX); let _ = v.get_definition(usize::MAX);
    }
    for s in shdrs.iter() {
        if let Ok((d, c)) = f.section_data(s) { sink += d.len() + c.map(|c| c.ch_size as usize & 1).unwrap_or(0); }
        if let Ok(st) = f.section_data_as_strtab(s) { let _ = st.get(0); let _ = st.get(1); let _ = st.get(usize::MAX); }
        if let Ok(it) = f.section_data_as_rels(s) { sink += it.take(4096).map(|r| (r.r_sym as usize) & 1).sum::<usize>(); }
        if let Ok(it) = f.section_data_as_relas(s) { sink += it.take(4096).map(|r| (r.r_type as usize) & 1).sum::<usize>(); }
        if let Ok(it) = f.section_data_as_notes(s) { sink += it.take(4096).count(); }
    }
    for p in phdrs.iter() {
        if let Ok(d) = f.segment_data(p) { sink += d.len(); }
        if let Ok(it) = f.segment_data_as_notes(p) { sink += it.take(4096).count(); }
    }
    std::hint::black_box(sink);
    Ok(())
}

/// calibration of the family itself (run with no property selected): the unmutated base objects must be healthy, i.e. every
/// structure the corruptions aim at is really reached through the public API
pub fn health(b: &[u8]) -> Result<(), String> {
    let e = |m: &str| Err(format!("ORACLE-BASE: the unmutated base object is not healthy: {}", m));
    let f = match ElfBytes::<AnyEndian>::minimal_parse(b) { Ok(f) => f, Err(x) => return e(&format!("minimal_parse: {:?}", x)) };
    if f.section_headers().map(|t| t.len()) != Some(16) || f.segments().map(|t| t.len()) != Some(3) { return e("16 sections / 3 segments expected"); }
    let c = match f.find_common_data() { Ok(c) => c, Err(x) => return e(&format!("find_common_data: {:?}", x)) };
    let (Some(ds), Some(dstr), Some(sysv), Some(gnu)) = (c.dynsyms.as_ref(), c.dynsyms_strs.as_ref(), c.sysv_hash.as_ref(), c.gnu_hash.as_ref()) else { return e("dynsym / dynstr / .hash / .gnu.hash missing from find_common_data") };
    if c.symtab.is_none() || c.symtab_strs.is_none() || c.dynamic.as_ref().map(|d| d.iter().count()) != Some(3) { return e("symtab / strtab / 3 dynamic entries expected"); }
    for (n, i) in [(&b"foo"[..], 1usize), (b"bar", 2)] {
        if sysv.find(n, ds, dstr).ok().flatten().map(|x| x.0) != Some(i) { return e(&format!("SysV lookup of {:?}", n)); }
        if gnu.find(n, ds, dstr).ok().flatten().map(|x| x.0) != Some(i) { return e(&format!("GNU lookup of {:?}", n)); }
    }
    let v = match f.symbol_version_table() { Ok(Some(v)) => v, x => return e(&format!("symbol_version_table: {:?}", x.map(|o| o.is_some()))) };
    match v.get_requirement(1) { Ok(Some(r)) if r.name == "V1" && r.file == "libc.so" => {}, x => return e(&format!("get_requirement(1): {:?}", x)) }
    match v.get_definition(2) { Ok(Some(d)) => { let hidden = d.hidden; if !hidden || d.names.map(|n| n.ok().map(|s| s.to_string())).collect::<Vec<_>>() != vec![Some("V2".to_string())] { return e("get_definition(2): hidden definition with the one name V2 expected"); } }, _ => return e("get_definition(2)") }
    let sh = |n: &str| f.section_header_by_name(n).ok().flatten();
    let (Some(note), Some(rela), Some(rel), Some(z)) = (sh(".note"), sh(".rela"), sh(".rel"), sh(".zdebug")) else { return e("by-name lookups") };
    if f.section_data_as_notes(&note).map(|i| i.count()).ok() != Some(1) || f.section_data_as_relas(&rela).map(|i| i.count()).ok() != Some(1) || f.section_data_as_rels(&rel).map(|i| i.count()).ok() != Some(1) { return e("note / rela / rel sections"); }
    if !matches!(f.section_data(&z), Ok((d, Some(_))) if d.len() == 5) { return e("compressed section"); }
    let ph: Vec<_> = f.segments().unwrap().iter().collect();
    if f.segment_data_as_notes(&ph[2]).map(|i| i.count()).ok() != Some(1) || f.segment_data(&ph[1]).map(|d| d.len()).ok() != Some(if b[4] == 2 { 48 } else { 24 }) { return e("PT_NOTE / PT_DYNAMIC segments"); }
    Ok(())
}
pub fn check_c01(c: &FileCase) -> Result<(), String> {
    if !c.what.contains(';') { health(&c.file)?; }
    exercise(&c.file)
}

pub fn enumerate_c01(n: usize, seed: u64) -> Vec<FileCase> { enumerate_files(n, seed, true) }
/// the same family; `compressed == false` leaves SHF_COMPRESSED off (and never sets it by a corruption of sh_flags): the stream comparison's scope
pub fn enumerate_files(n: usize, seed: u64, compressed: bool) -> Vec<FileCase> {
    let mut r = Lcg(seed ^ 0xc01); let mut out = Vec::with_capacity(n);
    let bases: Vec<(bool, bool, (Vec<u8>, usize, usize, usize, usize, Vec<(usize, usize)>))> = [(true, true), (true, false), (false, true), (false, false)].iter().map(|&(l, c)| (l, c, base_with(l, c, compressed))).collect();
    for i in 0..n {
        let (little, elf64, (file, shoff, shentsize, ehsize, phentsize, extents)) = &bases[i % 4];
        let (little, elf64) = (*little, *elf64);
        let mut f = file.clone(); let len = f.len() as u64;
        let mut what = format!("ELF{} {}", if elf64 { 64 } else { 32 }, if little { "LE" } else { "BE" });
        if i >= 4 {
            for _ in 0..1 + r.next(3) {
                let v = [0u64, 1, 2, 1 << 31, (1 << 32) - 1, 1 << 63, u64::MAX, u64::MAX - 7, len, len - 1, len + 1, 0xffff, 0xff00, 3, 7, 8, 16, 24][r.next(18) as usize];
                // (offset, width) of a header field: section header fields, program header fields, ELF header fields
                let (off, wd, nm) = match r.next(10) {
                    0..=5 => { let s = r.next(16) as usize; let base = shoff + s * shentsize;
                        let mut fld = r.next(10) as usize; if !compressed && fld == 2 { fld = 3; }
                        let (o, w) = if elf64 { [(0, 4), (4, 4), (8, 8), (16, 8), (24, 8), (32, 8), (40, 4), (44, 4), (48, 8), (56, 8)][fld] } else { [(0, 4), (4, 4), (8, 4), (12, 4), (16, 4), (20, 4), (24, 4), (28, 4), (32, 4), (36, 4)][fld] };
                        (base + o, w, format!("shdr[{}].{}", s, ["sh_name", "sh_type", "sh_flags", "sh_addr", "sh_offset", "sh_size", "sh_link", "sh_info", "sh_addralign", "sh_entsize"][fld])) }
                    6 | 7 => { let p = r.next(3) as usize; let base = ehsize + p * phentsize; let fld = r.next(8) as usize;
                        let (o, w) = if elf64 { [(0, 4), (4, 4), (8, 8), (16, 8), (24, 8), (32, 8), (40, 8), (48, 8)][fld] } else { [(0, 4), (4, 4), (8, 4), (12, 4), (16, 4), (20, 4), (24, 4), (28, 4)][fld] };
                        (base + o, w, format!("phdr[{}] field {}", p, fld)) }
                    _ => { let fld = r.next(8) as usize;
                        let (o, w) = if elf64 { [(32, 8), (40, 8), (52, 2), (54, 2), (56, 2), (58, 2), (60, 2), (62, 2)][fld] } else { [(28, 4), (32, 4), (40, 2), (42, 2), (44, 2), (46, 2), (48, 2), (50, 2)][fld] };
                        (o, w, ["e_phoff", "e_shoff", "e_ehsize", "e_phentsize", "e_phnum", "e_shentsize", "e_shnum", "e_shstrndx"][fld].to_string()) }
                };
                let bytes = v.to_le_bytes();
                for k in 0..wd { f[off + k] = if little { bytes[k] } else { bytes[wd - 1 - k] }; }
                what += &format!("; {} = {:#x}", nm, if wd == 8 { v } else { v & ((1u64 << (8 * wd)) - 1) });
            }
            // a 16/32-bit word INSIDE a section's bytes (hash headers, bucket / chain words, version records, note sizes, symbols ...)
            for _ in 0..r.next(3) {
                let sidx = 1 + r.next(15) as usize; let (so, sl) = extents[sidx];
                if sl < 2 { continue; }
                let wd = if sl >= 4 && r.next(3) != 0 { 4 } else { 2 };
                let o = so + (r.next((sl / wd) as u64) as usize) * wd;
                let v = [0u64, 1, 2, 3, 31, 32, 33, 63, 64, 1 << 31, (1 << 32) - 1, 0xffff, 0x8000, 0x7fff, sl as u64, sl as u64 + 1, 5, 16][r.next(18) as usize];
                let bytes = v.to_le_bytes();
                for k in 0..wd { f[o + k] = if little { bytes[k] } else { bytes[wd - 1 - k] }; }
                what += &format!("; section {} bytes [{}..{}] = {:#x}", sidx, o - so, o - so + wd, v & ((1u64 << (8 * wd)) - 1));
            }
            if r.next(8) == 0 { let cut = r.next(len + 1) as usize; f.truncate(cut); what += &format!("; truncated to {} bytes", cut); }
            if r.next(16) == 0 && !f.is_empty() { let p = r.next(f.len() as u64) as usize; f[p] ^= 1 << r.next(8); what += &format!("; bit flipped in byte {}", p); }
        }
        out.push(FileCase { file: f, what });
    }
    out
}
