//! Native input families for the executable oracles of checks.rs (the same oracles Kani runs symbolically, here run natively
//! over a stated pseudo-random family with a fixed seed).  Bounded cross-validation / replay search only; never an OK.
use crate::*;

struct Lcg(u64);
impl Lcg { fn next(&mut self, n: u64) -> u64 { self.0 = self.0.wrapping_mul(6364136223846793005).wrapping_add(1442695040888963407); (self.0 >> 33) % n } }

#[derive(Clone, Debug)]
pub struct BytesCase { pub buf: Vec<u8>, pub a: u64, pub b: u64, pub sel: u8, pub f1: bool, pub f2: bool }

fn bytes(r: &mut Lcg, maxlen: usize) -> Vec<u8> {
    let len = r.next(maxlen as u64 + 1) as usize;
    (0..len).map(|_| if r.next(3) == 0 { [0u8, 1, 0x7f, 0x80, 0xff, b'G', b'N', b'U', 0xe9, 0xc3][r.next(10) as usize] } else { r.next(256) as u8 }).collect()
}
fn offset(r: &mut Lcg, len: usize) -> u64 { match r.next(8) { 0 => len as u64, 1 => len as u64 + 1, 2 => u64::MAX, 3 => u64::MAX - r.next(9), 4 => len.saturating_sub(r.next(9) as usize) as u64, _ => r.next(len as u64 + 2) } }

/// C04: buffers of <= 12 bytes, offsets inside / at / past the end and near usize::MAX, all six readers, all four specs
pub fn fam_c04(n: usize, seed: u64) -> Vec<BytesCase> { let mut r = Lcg(seed); (0..n).map(|_| { let buf = bytes(&mut r, 12); let a = offset(&mut r, buf.len()); BytesCase { buf, a, b: 0, sel: r.next(24) as u8, f1: false, f2: false } }).collect() }
pub fn run_c04(c: &BytesCase) -> Result<(), String> { check_c04(&c.buf, c.a as usize, c.sel % 6, c.sel / 6) }
/// C15: string tables of <= 10 bytes from a small alphabet (NULs, ASCII, invalid UTF-8), offsets as for C04
pub fn fam_c15(n: usize, seed: u64) -> Vec<BytesCase> { let mut r = Lcg(seed); (0..n).map(|_| { let len = r.next(11) as usize; let buf: Vec<u8> = (0..len).map(|_| [0u8, 0, b'a', b'b', 0xe9, 0x80, 0xc3, 0xa9][r.next(8) as usize]).collect(); let a = offset(&mut r, buf.len()); BytesCase { buf, a, b: 0, sel: 0, f1: false, f2: false } }).collect() }
pub fn run_c15(c: &BytesCase) -> Result<(), String> { check_c15(&c.buf, c.a as usize)?; check_c15_get(&c.buf, c.a as usize) }
/// C09: tables of <= 40 bytes (ragged tails), indexes inside / at / past len and huge
pub fn fam_c09(n: usize, seed: u64) -> Vec<BytesCase> { let mut r = Lcg(seed); (0..n).map(|_| { let buf = bytes(&mut r, 40); let a = match r.next(4) { 0 => u64::MAX / 4 + r.next(3), 1 => u64::MAX, _ => r.next(12) }; BytesCase { buf, a, b: 0, sel: 0, f1: r.next(2) == 0, f2: false } }).collect() }
pub fn run_c09(c: &BytesCase) -> Result<(), String> { check_c09_len(&c.buf, c.f1)?; check_c09(&c.buf, c.a as usize, c.f1) }
/// C10: a valid ident with 0-3 bytes replaced (values biased to 0, 1, 2, 3, 0xff)
pub fn fam_c10(n: usize, seed: u64) -> Vec<BytesCase> { let mut r = Lcg(seed); (0..n).map(|_| { let mut id = vec![0x7f, b'E', b'L', b'F', 1 + r.next(2) as u8, 1 + r.next(2) as u8, 1, r.next(256) as u8, r.next(256) as u8, 0, 0, 0, 0, 0, 0, 0];
    for _ in 0..r.next(4) { let p = [0usize, 1, 2, 3, 4, 5, 6, 4, 5, 6][r.next(10) as usize]; id[p] = [0u8, 1, 2, 3, 0xff, 0x7f, b'E'][r.next(7) as usize]; } BytesCase { buf: id, a: 0, b: 0, sel: 0, f1: false, f2: false } }).collect() }
pub fn run_c10(c: &BytesCase) -> Result<(), String> { let mut id = [0u8; 16]; id.copy_from_slice(&c.buf[..16]); check_c10(&id) }
/// C14: one to three note records laid out with a chosen alignment (names incl. "GNU\0", types 1/3/5, sizes on and off the
/// alignment), optionally truncated or with a corrupted size word; both byte orders and classes; every alignment of check_c14
pub fn fam_c14(n: usize, seed: u64) -> Vec<BytesCase> {
    let mut r = Lcg(seed);
    (0..n).map(|_| {
        let little = r.next(2) == 0; let sel0 = r.next(8) as u8; let align = [0usize, 1, 2, 4, 8, 16, 3, 4][sel0 as usize].max(1);
        // one case in eight is parsed with an absurd alignment (selectors 8..12 of check_c14) although laid out for `align`
        let sel = if r.next(8) == 0 { 8 + r.next(4) as u8 } else { sel0 };
        let mut buf = Vec::new();
        for _ in 0..1 + r.next(3) {
            let name: &[u8] = [&b"GNU\0"[..], b"GNU\0", b"", b"X\0", b"GNUX\0", b"CORE\0\0\0\0", b"GN\0"][r.next(7) as usize];
            let dsz = [0usize, 1, 4, 5, 16, 20, 2][r.next(7) as usize]; let ty = [1u32, 3, 5, 0][r.next(4) as usize];
            for w in [name.len() as u32, dsz as u32, ty] { if little { buf.extend_from_slice(&w.to_le_bytes()) } else { buf.extend_from_slice(&w.to_be_bytes()) } }
            buf.extend_from_slice(name); while buf.len() % align != 0 { buf.push(0xaa); }
            for i in 0..dsz { buf.push(i as u8 + 1); } if r.next(5) != 0 { while buf.len() % align != 0 { buf.push(0xbb); } }
        }
        if r.next(5) == 0 { let k = r.next(buf.len() as u64 + 1) as usize; buf.truncate(k); }
        if r.next(8) == 0 && buf.len() >= 8 { let p = r.next(8) as usize; buf[p] = [0xffu8, 0x10, 3][r.next(3) as usize]; }
        BytesCase { buf, a: 0, b: 0, sel, f1: r.next(2) == 0, f2: little }
    }).collect()
}
pub fn run_c14(c: &BytesCase) -> Result<(), String> { check_c14(&c.buf, c.sel, c.f1, c.f2) }
/// C03: offsets / sizes / p_memsz around the 60-byte file's boundaries and around u64 overflow
pub fn fam_c03(n: usize, seed: u64) -> Vec<BytesCase> { let mut r = Lcg(seed); let v = |r: &mut Lcg| [0u64, 1, 8, 52, 59, 60, 61, 7, 30, u64::MAX, u64::MAX - 59, 1 << 63, 12, 11, 13, 48, 40, 20][r.next(18) as usize]; (0..n).map(|_| BytesCase { buf: vec![], a: v(&mut r), b: v(&mut r), sel: 0, f1: r.next(4) == 0, f2: r.next(2) == 0 }).map(|mut c| { c.sel = c.f2 as u8; c }).collect() }
pub fn run_c03(c: &BytesCase) -> Result<(), String> { check_c03_range(c.a, c.b, if c.f2 { 0 } else { c.b / 2 + 3 }, c.f1)?; check_c03_compressed(c.a, c.b, c.f1) }
/// C13/C16 iterators: the structured version sections of enumerate_symver, iterated from offsets 0 / 16 / 20 / 28 with their counts
pub fn fam_c13i(n: usize, seed: u64) -> Vec<BytesCase> { let mut r = Lcg(seed ^ 0x5151); crate::slice_oracle::enumerate_symver(n, seed).into_iter().map(|s| { let defs = r.next(2) == 0; BytesCase { buf: if defs { s.def } else { s.need }, a: [0u64, 1, 2, 3, 200][r.next(5) as usize], b: [0u64, 0, 16, 20, 28, 32][r.next(6) as usize], sel: 0, f1: s.little, f2: defs } }).collect() }
pub fn run_c13i(c: &BytesCase) -> Result<(), String> { check_c13_iter(&c.buf, c.a as u8, c.b as u8, c.f1, c.f2) }
/// C02: for every ABI structure, buffers of up to size + 8 bytes at offsets 0..8 (and past the end), both classes and orders
pub fn fam_c02(n: usize, seed: u64) -> Vec<BytesCase> { let mut r = Lcg(seed); (0..n).map(|_| { let buf = bytes(&mut r, 80); let a = match r.next(6) { 0 => buf.len() as u64, 1 => u64::MAX - r.next(4), _ => r.next(9) }; BytesCase { buf, a, b: 0, sel: r.next(64) as u8, f1: r.next(2) == 0, f2: r.next(2) == 0 } }).collect() }
