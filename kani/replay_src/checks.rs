//! Executable oracles paired with Verus obligations (DESIGN section 2, step 5).  Each `check_*` runs the REAL crate
//! function on concrete inputs and compares with an independent oracle written from the ABI / property text.
//! They are used twice: (1) under Kani with symbolic inputs to SEARCH for a failing input once Verus has rejected an
//! obligation, (2) in a plain `main` with the found values to REPLAY the failure against the real crate.
use elf::endian::{AnyEndian, BigEndian, EndianParse, LittleEndian};
use elf::file::Class;
use elf::parse::ParseAt;

pub fn le(b: &[u8]) -> u64 { let mut v = 0u64; for i in (0..b.len()).rev() { v = (v << 8) | b[i] as u64; } v }
pub fn be(b: &[u8]) -> u64 { let mut v = 0u64; for i in 0..b.len() { v = (v << 8) | b[i] as u64; } v }
pub fn uval(little: bool, b: &[u8]) -> u64 { if little { le(b) } else { be(b) } }
pub fn sext(v: u64, bytes: usize) -> i64 { let sh = 64 - 8 * bytes as u32; ((v << sh) as i64) >> sh }

/// C04: every reader, every byte-order specification.  width_sel: 0=u8 1=u16 2=u32 3=u64 4=i32 5=i64; spec_sel: 0=LE 1=BE 2=Any/Little 3=Any/Big
pub fn check_c04(buf: &[u8], off: usize, width_sel: u8, spec_sel: u8) -> Result<(), String> {
    let little = spec_sel == 0 || spec_sel == 2;
    fn rd<E: EndianParse>(e: E, w: u8, off: &mut usize, d: &[u8]) -> Result<i128, ()> {
        match w {
            0 => e.parse_u8_at(off, d).map(|v| v as i128).map_err(|_| ()),
            1 => e.parse_u16_at(off, d).map(|v| v as i128).map_err(|_| ()),
            2 => e.parse_u32_at(off, d).map(|v| v as i128).map_err(|_| ()),
            3 => e.parse_u64_at(off, d).map(|v| v as i128).map_err(|_| ()),
            4 => e.parse_i32_at(off, d).map(|v| v as i128).map_err(|_| ()),
            _ => e.parse_i64_at(off, d).map(|v| v as i128).map_err(|_| ()),
        }
    }
    let width = [1usize, 2, 4, 8, 4, 8][(width_sel % 6) as usize];
    let mut o = off;
    let r = match spec_sel % 4 {
        0 => rd(LittleEndian, width_sel % 6, &mut o, buf),
        1 => rd(BigEndian, width_sel % 6, &mut o, buf),
        2 => rd(AnyEndian::Little, width_sel % 6, &mut o, buf),
        _ => rd(AnyEndian::Big, width_sel % 6, &mut o, buf),
    };
    let fits = off.checked_add(width).map_or(false, |e| e <= buf.len());
    match r {
        Ok(v) => {
            if !fits { fail!("read of {} bytes at {} in a {}-byte buffer returned Ok", width, off, buf.len()); }
            let raw = uval(little, &buf[off..off + width]);
            let want: i128 = if width_sel % 6 >= 4 { sext(raw, width) as i128 } else { raw as i128 };
            if v != want { fail!("value {} != expected {}", v, want); }
            if o != off + width { fail!("offset advanced to {} instead of {}", o, off + width); }
        }
        Err(()) => {
            if fits { fail!("read of {} bytes at {} in a {}-byte buffer returned Err", width, off, buf.len()); }
            if o != off { fail!("failed read moved the offset from {} to {}", off, o); }
        }
    }
    Ok(())
}

/// C15: StringTable::get_raw == the NUL-terminated run at off
pub fn check_c15(buf: &[u8], off: usize) -> Result<(), String> {
    let t = elf::string_table::StringTable::new(buf);
    let r = t.get_raw(off);
    let nul = if off < buf.len() { buf[off..].iter().position(|&b| b == 0) } else { None };
    match (r, nul) {
        (Ok(s), Some(k)) => { if s != &buf[off..off + k] { fail!("get_raw({}) returned {:?}, expected {:?}", off, s, &buf[off..off + k]); } Ok(()) }
        (Err(_), None) => Ok(()),
        (Ok(s), None) => { fail!("get_raw({}) returned Ok({:?}) but no NUL follows inside the table", off, s); }
        (Err(e), Some(_)) => { fail!("get_raw({}) returned Err({:?}) although a NUL-terminated string starts there", off, e); }
    }
}

/// C09: u32 table coherence: len, is_empty, get(i), iteration
pub fn check_c09(buf: &[u8], idx: usize, little: bool) -> Result<(), String> {
    let e = if little { AnyEndian::Little } else { AnyEndian::Big };
    let t = elf::parse::ParsingTable::<AnyEndian, u32>::new(e, Class::ELF64, buf);
    let n = buf.len() / 4;
    if t.len() != n { fail!("len() == {} for {} bytes of 4-byte entries", t.len(), buf.len()); }
    if t.is_empty() != (n == 0) { fail!("is_empty() == {} but len() == {}", t.is_empty(), n); }
    match t.get(idx) {
        Ok(v) => { if idx >= n { fail!("get({}) is Ok but len() == {}", idx, n); }
                   let want = uval(little, &buf[idx * 4..idx * 4 + 4]) as u32;
                   if v != want { fail!("get({}) == {} expected {}", idx, v, want); } }
        Err(_) => if idx < n { fail!("get({}) is Err but len() == {}", idx, n); },
    }
    let mut k = 0usize;
    for x in t.iter() {
        if k >= n { fail!("iteration yields more than len() == {} items", n); }
        if Ok(x) != t.get(k).map_err(|_| ()) { fail!("item {} of the iteration differs from get({})", k, k); }
        k += 1;
    }
    if k != n { fail!("iteration yields {} items, len() == {}", k, n); }
    Ok(())
}

/// C09 (loop-free part): len()/is_empty() for a u32 table and for an entry type whose Rust struct size (16) differs from its
/// ELF32 file size (8)
pub fn check_c09_len(buf: &[u8], little: bool) -> Result<(), String> {
    let e = if little { AnyEndian::Little } else { AnyEndian::Big };
    let t = elf::parse::ParsingTable::<AnyEndian, u32>::new(e, Class::ELF64, buf);
    let n = buf.len() / 4;
    if t.len() != n { fail!("u32 table: len() == {} for {} bytes of 4-byte entries", t.len(), buf.len()); }
    if t.is_empty() != (n == 0) { fail!("u32 table: is_empty() == {} but {} whole entries fit", t.is_empty(), n); }
    let t2 = elf::parse::ParsingTable::<AnyEndian, elf::relocation::Rel>::new(e, Class::ELF32, buf);
    let n2 = buf.len() / 8;
    if t2.len() != n2 { fail!("Rel/ELF32 table: len() == {} for {} bytes of 8-byte entries", t2.len(), buf.len()); }
    if t2.is_empty() != (n2 == 0) { fail!("Rel/ELF32 table: is_empty() == {} but {} whole 8-byte entries fit", t2.is_empty(), n2); }
    Ok(())
}

/// C10: from_ei_data accept sets and parse_ident's classification of a 16-byte ident
pub fn check_c10(ident: &[u8; 16]) -> Result<(), String> {
    use elf::ParseError as PE;
    let ei = ident[5];
    let le_ok = LittleEndian::from_ei_data(ei).is_ok(); let be_ok = BigEndian::from_ei_data(ei).is_ok(); let any_ok = AnyEndian::from_ei_data(ei).is_ok();
    if le_ok != (ei == 1) || be_ok != (ei == 2) || any_ok != (ei == 1 || ei == 2) { fail!("from_ei_data({}) accept sets wrong: LE {} BE {} Any {}", ei, le_ok, be_ok, any_ok); }
    let r = elf::file::parse_ident::<AnyEndian>(ident);
    let magic_ok = ident[0..4] == [0x7f, b'E', b'L', b'F'];
    let want = if !magic_ok { 1 } else if ident[6] != 1 { 2 } else if ident[4] != 1 && ident[4] != 2 { 3 } else if ei != 1 && ei != 2 { 4 } else { 0 };
    let got = match &r { Ok(_) => 0, Err(PE::BadMagic(m)) if m[..] == ident[0..4] => 1, Err(PE::UnsupportedVersion((v, 1))) if *v == ident[6] as u64 => 2,
                         Err(PE::UnsupportedElfClass(c)) if *c == ident[4] => 3, Err(PE::UnsupportedElfEndianness(d)) if *d == ei => 4, Err(_) => 9 };
    if got != want { fail!("parse_ident classified the ident as {} (0 ok,1 magic,2 version,3 class,4 data,9 other), expected {}", got, want); }
    if let Ok((e, c, osabi, abiver)) = r {
        if e.is_little() != (ei == 1) || (c == Class::ELF32) != (ident[4] == 1) || osabi != ident[7] || abiver != ident[8] { fail!("parse_ident Ok tuple wrong"); }
    }
    Ok(())
}

/// C11/C12: the exported hash functions against the reference algorithms
pub fn check_hash(name: &[u8]) -> Result<(), String> {
    let mut h: u32 = 0;
    for &c in name { h = (h << 4).wrapping_add(c as u32); let g = h & 0xf000_0000; if g != 0 { h ^= g >> 24; } h &= !g; }
    if elf::hash::sysv_hash(name) != h { fail!("sysv_hash({:?}) == {:#x}, gABI elf_hash gives {:#x}", name, elf::hash::sysv_hash(name), h); }
    let mut g: u32 = 5381;
    for &c in name { g = g.wrapping_mul(33).wrapping_add(c as u32); }
    if elf::hash::gnu_hash(name) != g { fail!("gnu_hash({:?}) == {:#x}, djb2 gives {:#x}", name, elf::hash::gnu_hash(name), g); }
    Ok(())
}

include!("layout_oracle.rs");
