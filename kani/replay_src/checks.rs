//! Executable oracles paired with Verus obligations (DESIGN section 2, step 5).  Each `check_*` runs the REAL crate
//! function on concrete inputs and compares with an independent oracle written from the ABI / property text.
//! They are used twice: (1) under Kani with symbolic inputs to SEARCH for a failing input once Verus has rejected an
//! obligation, (2) in a plain `main` with the found values to REPLAY the failure against the real crate.
use elf::endian::{AnyEndian, BigEndian, EndianParse, LittleEndian};
use elf::file::Class;
use elf::parse::ParseAt;

pub fn le(b: &[u8]) -> u64 { let mut v = 0u64; for i in (0..b.len()).rev() { v = (v << 8) | b[i] as u64; } v }
pub fn be(b: &[u8]) -> u64 { let mut v = 0u64; for i in 0..b.len() { v = (v << 8) | b[i] as u64; } v }
pub fn uval(little: bool, b: &[u8]) -> u64 { if little { le(b) } else { be(b) } }
pub fn sext(v: u64, bytes: usize) -> i64 { let sh = 64 - 8 * bytes as u32; ((v << sh) as i64) >> sh }

/// C04: every reader, every byte-order specification.  width_sel: 0=u8 1=u16 2=u32 3=u64 4=i32 5=i64; spec_sel: 0=LE 1=BE 2=Any/Little 3=Any/Big
pub fn check_c04(buf: &[u8], off: usize, width_sel: u8, spec_sel: u8) -> Result<(), String> {
    let little = spec_sel == 0 || spec_sel == 2;
    fn rd<E: EndianParse>(e: E, w: u8, off: &mut usize, d: &[u8]) -> Result<i128, ()> {
        match w {
            0 => e.parse_u8_at(off, d).map(|v| v as i128).map_err(|_| ()),
            1 => e.parse_u16_at(off, d).map(|v| v as i128).map_err(|_| ()),
            2 => e.parse_u32_at(off, d).map(|v| v as i128).map_err(|_| ()),
            3 => e.parse_u64_at(off, d).map(|v| v as i128).map_err(|_| ()),
            4 => e.parse_i32_at(off, d).map(|v| v as i128).map_err(|_| ()),
            _ => e.parse_i64_at(off, d).map(|v| v as i128).map_err(|_| ()),
        }
    }
    let width = [1usize, 2, 4, 8, 4, 8][(width_sel % 6) as usize];
    let mut o = off;
    let r = match spec_sel % 4 {
        0 => rd(LittleEndian, width_sel % 6, &mut o, buf),
        1 => rd(BigEndian, width_sel % 6, &mut o, buf),
        2 => rd(AnyEndian::Little, width_sel % 6, &mut o, buf),
        _ => rd(AnyEndian::Big, width_sel % 6, &mut o, buf),
    };
    let fits = off.checked_add(width).map_or(false, |e| e <= buf.len());
    match r {
        Ok(v) => {
            if !fits { fail!("read of {} bytes at {} in a {}-byte buffer returned Ok", width, off, buf.len()); }
            let raw = uval(little, &buf[off..off + width]);
            let want: i128 = if width_sel % 6 >= 4 { sext(raw, width) as i128 } else { raw as i128 };
            if v != want { fail!("value {} != expected {}", v, want); }
            if o != off + width { fail!("offset advanced to {} instead of {}", o, off + width); }
        }
        Err(()) => {
            if fits { fail!("read of {} bytes at {} in a {}-byte buffer returned Err", width, off, buf.len()); }
            if o != off { fail!("failed read moved the offset from {} to {}", off, o); }
        }
    }
    Ok(())
}

/// C15: StringTable::get_raw == the NUL-terminated run at off
pub fn check_c15(buf: &[u8], off: usize) -> Result<(), String> {
    let t = elf::string_table::StringTable::new(buf);
    let r = t.get_raw(off);
    let nul = if off < buf.len() { buf[off..].iter().position(|&b| b == 0) } else { None };
    match (r, nul) {
        (Ok(s), Some(k)) => { if s != &buf[off..off + k] { fail!("get_raw({}) returned {:?}, expected {:?}", off, s, &buf[off..off + k]); } }
        (Err(_), None) => {}
        (Ok(s), None) => { fail!("get_raw({}) returned Ok({:?}) but no NUL follows inside the table", off, s); }
        (Err(e), Some(_)) => { fail!("get_raw({}) returned Err({:?}) although a NUL-terminated string starts there", off, e); }
    }
    Ok(())
}

/// well-formed UTF-8 per the Unicode standard, table 3-7 (independent of core::str)
pub fn utf8_ok(b: &[u8]) -> bool {
    let n = b.len(); let mut i = 0;
    while i < n {
        let c = b[i];
        if c < 0x80 { i += 1; continue; }
        let cont = |k: usize| k < n && (b[k] & 0xC0) == 0x80;
        if (0xC2..=0xDF).contains(&c) { if !cont(i + 1) { return false; } i += 2; continue; }
        if (0xE0..=0xEF).contains(&c) {
            if !(cont(i + 1) && cont(i + 2)) { return false; }
            if c == 0xE0 && b[i + 1] < 0xA0 { return false; }
            if c == 0xED && b[i + 1] > 0x9F { return false; }
            i += 3; continue;
        }
        if (0xF0..=0xF4).contains(&c) {
            if !(cont(i + 1) && cont(i + 2) && cont(i + 3)) { return false; }
            if c == 0xF0 && b[i + 1] < 0x90 { return false; }
            if c == 0xF4 && b[i + 1] > 0x8F { return false; }
            i += 4; continue;
        }
        return false;
    }
    true
}
/// C15: StringTable::get == the NUL-terminated run at off as a str iff those bytes are valid UTF-8 (an error otherwise)
pub fn check_c15_get(buf: &[u8], off: usize) -> Result<(), String> {
    let t = elf::string_table::StringTable::new(buf);
    let mut nul = None;
    if off < buf.len() { let mut k = off; while k < buf.len() { if buf[k] == 0 { nul = Some(k - off); break; } k += 1; } }
    let g = t.get(off);
    match nul {
        None => if g.is_ok() { fail!("get({}) is Ok although no NUL-terminated string starts there", off); },
        Some(k) => {
            let want = &buf[off..off + k];
            match (g, utf8_ok(want)) {
                (Ok(s), true) => if s.as_bytes() != want { fail!("get({}) returned {:?}, expected the bytes {:?}", off, s, want); },
                (Err(_), false) => {}
                (Ok(s), false) => fail!("get({}) returned Ok({:?}) although the bytes are not valid UTF-8", off, s),
                (Err(e), true) => fail!("get({}) returned Err({:?}) although the string {:?} is valid UTF-8", off, e, want),
            }
        }
    }
    Ok(())
}

/// C09: u32 table coherence: len, is_empty, get(i), iteration
pub fn check_c09(buf: &[u8], idx: usize, little: bool) -> Result<(), String> {
    let e = if little { AnyEndian::Little } else { AnyEndian::Big };
    let t = elf::parse::ParsingTable::<AnyEndian, u32>::new(e, Class::ELF64, buf);
    let n = buf.len() / 4;
    if t.len() != n { fail!("len() == {} for {} bytes of 4-byte entries", t.len(), buf.len()); }
    if t.is_empty() != (n == 0) { fail!("is_empty() == {} but len() == {}", t.is_empty(), n); }
    match t.get(idx) {
        Ok(v) => { if idx >= n { fail!("get({}) is Ok but len() == {}", idx, n); }
                   let want = uval(little, &buf[idx * 4..idx * 4 + 4]) as u32;
                   if v != want { fail!("get({}) == {} expected {}", idx, v, want); } }
        Err(_) => if idx < n { fail!("get({}) is Err but len() == {}", idx, n); },
    }
    let mut k = 0usize;
    for x in t.iter() {
        if k >= n { fail!("iteration yields more than len() == {} items", n); }
        if Ok(x) != t.get(k).map_err(|_| ()) { fail!("item {} of the iteration differs from get({})", k, k); }
        k += 1;
    }
    if k != n { fail!("iteration yields {} items, len() == {}", k, n); }
    Ok(())
}

/// C09 (loop-free part): len()/is_empty() for a u32 table and for an entry type whose Rust struct size (16) differs from its
/// ELF32 file size (8)
pub fn check_c09_len(buf: &[u8], little: bool) -> Result<(), String> {
    let e = if little { AnyEndian::Little } else { AnyEndian::Big };
    let t = elf::parse::ParsingTable::<AnyEndian, u32>::new(e, Class::ELF64, buf);
    let n = buf.len() / 4;
    if t.len() != n { fail!("u32 table: len() == {} for {} bytes of 4-byte entries", t.len(), buf.len()); }
    if t.is_empty() != (n == 0) { fail!("u32 table: is_empty() == {} but {} whole entries fit", t.is_empty(), n); }
    let t2 = elf::parse::ParsingTable::<AnyEndian, elf::relocation::Rel>::new(e, Class::ELF32, buf);
    let n2 = buf.len() / 8;
    if t2.len() != n2 { fail!("Rel/ELF32 table: len() == {} for {} bytes of 8-byte entries", t2.len(), buf.len()); }
    if t2.is_empty() != (n2 == 0) { fail!("Rel/ELF32 table: is_empty() == {} but {} whole 8-byte entries fit", t2.is_empty(), n2); }
    Ok(())
}

/// C10: from_ei_data accept sets and parse_ident's classification of a 16-byte ident
pub fn check_c10(ident: &[u8; 16]) -> Result<(), String> {
    use elf::ParseError as PE;
    let ei = ident[5];
    let le_ok = LittleEndian::from_ei_data(ei).is_ok(); let be_ok = BigEndian::from_ei_data(ei).is_ok(); let any_ok = AnyEndian::from_ei_data(ei).is_ok();
    if le_ok != (ei == 1) || be_ok != (ei == 2) || any_ok != (ei == 1 || ei == 2) { fail!("from_ei_data({}) accept sets wrong: LE {} BE {} Any {}", ei, le_ok, be_ok, any_ok); }
    let r = elf::file::parse_ident::<AnyEndian>(ident);
    let magic_ok = ident[0..4] == [0x7f, b'E', b'L', b'F'];
    let version_ok = ident[6] == 1; let class_ok = ident[4] == 1 || ident[4] == 2; let data_ok = ei == 1 || ei == 2;
    let defects = (!magic_ok) as u8 + (!version_ok) as u8 + (!class_ok) as u8 + (!data_ok) as u8;
    if (defects == 0) != r.is_ok() { fail!("parse_ident is_ok() == {} for an ident with {} defects", r.is_ok(), defects); }
    // a file whose ONLY defect is X is rejected with the error naming X, carrying the bytes found
    if defects == 1 {
        let named = match &r {
            Err(PE::BadMagic(m)) => !magic_ok && m[..] == ident[0..4],
            Err(PE::UnsupportedVersion((v, _))) => !version_ok && *v == ident[6] as u64,
            Err(PE::UnsupportedElfClass(c)) => !class_ok && *c == ident[4],
            Err(PE::UnsupportedElfEndianness(d)) => !data_ok && *d == ei,
            _ => false };
        if !named { fail!("the only defect (magic ok {}, version ok {}, class ok {}, data ok {}) was not reported as what it is: {:?}", magic_ok, version_ok, class_ok, data_ok, r.as_ref().err()); }
    }
    if let Ok((e, c, osabi, abiver)) = r {
        if e.is_little() != (ei == 1) || (c == Class::ELF32) != (ident[4] == 1) || osabi != ident[7] || abiver != ident[8] { fail!("parse_ident Ok tuple wrong"); }
    }
    Ok(())
}

/// C11/C12: the exported hash functions against the reference algorithms
pub fn check_hash(name: &[u8]) -> Result<(), String> {
    let mut h: u32 = 0;
    for &c in name { h = (h << 4).wrapping_add(c as u32); let g = h & 0xf000_0000; if g != 0 { h ^= g >> 24; } h &= !g; }
    if elf::hash::sysv_hash(name) != h { fail!("sysv_hash({:?}) == {:#x}, gABI elf_hash gives {:#x}", name, elf::hash::sysv_hash(name), h); }
    let mut g: u32 = 5381;
    for &c in name { g = g.wrapping_mul(33).wrapping_add(c as u32); }
    if elf::hash::gnu_hash(name) != g { fail!("gnu_hash({:?}) == {:#x}, djb2 gives {:#x}", name, elf::hash::gnu_hash(name), g); }
    Ok(())
}

/// C14: the first two notes yielded by NoteIterator against a reference walk of the record layout
/// (12-byte header of three 32-bit words for both classes, name, padding to `align`, descriptor, padding)
pub fn check_c14(buf: &[u8], align_sel: u8, elf64: bool, little: bool) -> Result<(), String> {
    #[cfg(kani)] const NOTES: usize = 1;      // the search looks at the first note only (cost); the replay walks two
    #[cfg(not(kani))] const NOTES: usize = 2;
    use elf::note::{Note, NoteIterator};
    #[cfg(kani)] let align: usize = [0usize, 1, 2, 4, 8, 16, 3, 4][(align_sel % 8) as usize];
    // natively also absurd alignments (a caller-supplied value / sh_addralign of a crafted file): padding must not overflow
    #[cfg(not(kani))] let align: usize = [0usize, 1, 2, 4, 8, 16, 3, 4, usize::MAX, usize::MAX - 3, 1 << 63, usize::MAX - 15][(align_sel % 12) as usize];
    let class = if elf64 { Class::ELF64 } else { Class::ELF32 };
    let e = if little { AnyEndian::Little } else { AnyEndian::Big };
    fn pad(x: u64, a: u64) -> Option<u64> { if x % a > 0 { x.checked_add(a - x % a) } else { Some(x) } }      // None: the padded offset is not representable, no record fits
    // -> (next offset, n_type, name range, desc range)
    fn ref_note(little: bool, a: usize, d: &[u8], off: u64) -> Option<(u64, u64, (usize, usize), (usize, usize))> {
        let len = d.len() as u64;
        if a == 0 || d.is_empty() || off + 12 > len { return None; }
        let o = off as usize;
        let namesz = uval(little, &d[o..o + 4]); let descsz = uval(little, &d[o + 4..o + 8]); let ty = uval(little, &d[o + 8..o + 12]);
        let name_end = off + 12 + namesz; if name_end > len { return None; }
        let ds = pad(name_end, a as u64)?; let de = ds.checked_add(descsz)?; if de > len { return None; }
        let next = pad(de, a as u64)?;
        let name = &d[o + 12..name_end as usize];
        if name == b"GNU\0" && ty == 1 && descsz < 16 { return None; }
        Some((next, ty, (o + 12, name_end as usize), (ds as usize, de as usize)))
    }
    let mut it = NoteIterator::new(e, class, align, buf);
    let mut off: u64 = 0;
    for k in 0..NOTES {
        let want = ref_note(little, align, buf, off);
        let got = it.next();
        match (got, want) {
            (None, None) => return Ok(()),
            (Some(_), None) => fail!("note #{}: the iterator yields a note at offset {} where no whole record fits (align {})", k, off, align),
            (None, Some(_)) => fail!("note #{}: the iterator stops at offset {} although a whole record fits there (align {})", k, off, align),
            (Some(n), Some((next, ty, (ns, ne), (ds, de)))) => {
                let name = &buf[ns..ne]; let desc = &buf[ds..de];
                let same = |d: &[u8], w: &[u8]| d.len() == w.len() && (w.is_empty() || core::ptr::eq(d.as_ptr(), w.as_ptr()));
                match n {
                    Note::GnuAbiTag(t) => {
                        if !(name == b"GNU\0" && ty == 1) { fail!("note #{}: typed as ABI tag but name/type are {:?}/{}", k, name, ty); }
                        let w = |i: usize| uval(little, &desc[4 * i..4 * i + 4]) as u32;
                        if t.os != w(0) || t.major != w(1) || t.minor != w(2) || t.subminor != w(3) { fail!("note #{}: ABI tag words differ from the descriptor bytes", k); }
                    }
                    Note::GnuBuildId(b) => {
                        if !(name == b"GNU\0" && ty == 3) { fail!("note #{}: typed as build id but name/type are {:?}/{}", k, name, ty); }
                        if !same(b.0, desc) { fail!("note #{}: build id is not the descriptor bytes buf[{}..{}]", k, ds, de); }
                    }
                    Note::Unknown(a) => {
                        if name == b"GNU\0" && (ty == 1 || ty == 3) { fail!("note #{}: a GNU note of type {} was not returned in its typed form", k, ty); }
                        if a.n_type != ty || !same(a.name, name) || !same(a.desc, desc) { fail!("note #{}: type {} name len {} desc len {}; expected type {}, name = buf[{}..{}], desc = buf[{}..{}]", k, a.n_type, a.name.len(), a.desc.len(), ty, ns, ne, ds, de); }
                    }
                }
                off = next;
            }
        }
    }
    Ok(())
}

/// C03, compressed sections (native only): a section flagged SHF_COMPRESSED yields the designated range minus its compression
/// header (12 bytes in this ELF32 file) -- same start address and length as file[off+12..off+size] -- or an error when the range
/// or the header does not fit; SHT_NOBITS is empty whatever the flags say
#[cfg(not(kani))]
pub fn check_c03_compressed(off: u64, size: u64, nobits: bool) -> Result<(), String> {
    const N: u64 = 60;
    let mut file = [0u8; N as usize];
    file[..8].copy_from_slice(&[0x7f, b'E', b'L', b'F', 1, 1, 1, 0]);
    file[16] = 2; file[18] = 3; file[20] = 1; file[40] = 52; file[42] = 32; file[46] = 40;
    let eb = match elf::ElfBytes::<AnyEndian>::minimal_parse(&file) { Ok(e) => e, Err(_) => fail!("minimal_parse rejected a header-only ELF32 file") };
    let sh = elf::section::SectionHeader { sh_name: 0, sh_type: if nobits { 8 } else { 1 }, sh_flags: 0x800 | 2, sh_addr: 0, sh_offset: off, sh_size: size, sh_link: 0, sh_info: 0, sh_addralign: 0, sh_entsize: 0 };
    let fits: Option<(usize, usize)> = off.checked_add(size).and_then(|e| if e <= N { Some((off as usize, e as usize)) } else { None });
    match eb.section_data(&sh) {
        Ok((d, c)) => {
            if nobits { if !d.is_empty() || c.is_some() { fail!("section_data of a SHT_NOBITS section (flagged SHF_COMPRESSED) is not (empty, no compression header): {} bytes, header {:?}", d.len(), c); } return Ok(()); }
            match fits {
                Some((s, e)) if e - s >= 12 => {
                    if c.is_none() { fail!("section_data of a compressed section returned no compression header"); }
                    if d.len() != e - s - 12 || (!d.is_empty() && !core::ptr::eq(d.as_ptr(), file[s + 12..].as_ptr())) { fail!("compressed payload is {} bytes; the header designates file[{}..{}] minus a 12-byte compression header", d.len(), s, e); }
                }
                _ => fail!("section_data of a compressed section is Ok although [{}, {}+{}) does not hold a compression header inside the {}-byte file", off, off, size, N),
            }
        }
        Err(_) => if nobits || matches!(fits, Some((s, e)) if e - s >= 12) { fail!("section_data is Err although the compressed section [{}, {}+{}) and its header lie inside the file (nobits={})", off, off, size, nobits); },
    }
    Ok(())
}

/// C03: ElfBytes::section_data / segment_data return exactly the byte range the (caller-supplied) header designates -- same
/// start address and length as file[off..off+size] -- over a 60-byte ELF32/LE file (52-byte header without tables + 8 bytes)
pub fn check_c03_range(off: u64, size: u64, memsz: u64, nobits: bool) -> Result<(), String> {
    const N: u64 = 60;
    let mut file = [0u8; N as usize];
    file[..8].copy_from_slice(&[0x7f, b'E', b'L', b'F', 1, 1, 1, 0]);
    file[16] = 2; file[18] = 3; file[20] = 1; file[40] = 52; file[42] = 32; file[46] = 40;
    let eb = match elf::ElfBytes::<AnyEndian>::minimal_parse(&file) { Ok(e) => e, Err(_) => fail!("minimal_parse rejected a header-only ELF32 file") };
    let want: Option<(usize, usize)> = off.checked_add(size).and_then(|e| if e <= N { Some((off as usize, e as usize)) } else { None });
    let same = |d: &[u8], s: usize, e: usize| d.len() == e - s && (e == s || core::ptr::eq(d.as_ptr(), file[s..].as_ptr()));
    let sh = elf::section::SectionHeader { sh_name: 0, sh_type: if nobits { 8 } else { 1 }, sh_flags: 0, sh_addr: 0, sh_offset: off, sh_size: size, sh_link: 0, sh_info: 0, sh_addralign: 0, sh_entsize: 0 };
    match eb.section_data(&sh) {
        Ok((d, c)) => {
            if c.is_some() { fail!("section_data returned a compression header for an uncompressed section"); }
            if nobits { if !d.is_empty() { fail!("section_data of a SHT_NOBITS section is not empty"); } }
            else { match want { Some((s, e)) => if !same(d, s, e) { fail!("section_data returned {} bytes, the header designates file[{}..{}]", d.len(), s, e); },
                                None => fail!("section_data is Ok although [{}, {}+{}) does not lie inside the {}-byte file", off, off, size, N) } }
        }
        Err(_) => if nobits || want.is_some() { fail!("section_data is Err although the designated range [{}, {}+{}) lies inside the file (nobits={})", off, off, size, nobits); },
    }
    let ph = elf::segment::ProgramHeader { p_type: 1, p_offset: off, p_vaddr: 0, p_paddr: 0, p_filesz: size, p_memsz: memsz, p_flags: 0, p_align: 0 };
    match (eb.segment_data(&ph), want) {
        (Ok(d), Some((s, e))) => if !same(d, s, e) { fail!("segment_data returned {} bytes, the header designates file[{}..{}] (p_memsz = {})", d.len(), s, e, memsz); },
        (Err(_), None) => {}
        (Ok(d), None) => fail!("segment_data is Ok ({} bytes) although [{}, {}+{}) does not lie inside the {}-byte file (p_memsz = {})", d.len(), off, off, size, N, memsz),
        (Err(_), Some((s, e))) => fail!("segment_data is Err although file[{}..{}] lies inside the file", s, e),
    }
    Ok(())
}

/// C13/C16: the records yielded by VerNeedIterator / VerDefIterator (and the first auxiliary record of each) against a
/// reference walk: record at the cursor, aux chain at record start + vn_aux/vd_aux with the record's count, cursor follows
/// vn_next/vd_next, count decremented and forced to 0 on a zero link; at most `count` records, cursor never moves back
pub fn check_c13_iter(buf: &[u8], count: u8, start: u8, little: bool, defs: bool) -> Result<(), String> {
    use elf::gnu_symver::{VerDefIterator, VerNeedIterator};
    let e = if little { AnyEndian::Little } else { AnyEndian::Big };
    let len = buf.len() as u64;
    let rs: u64 = if defs { 20 } else { 16 };           // record size; the auxiliary records are 8 / 16 bytes
    let mut off = start as u64; let mut cnt = count as u64;
    let u16a = |o: u64| uval(little, &buf[o as usize..o as usize + 2]);
    let u32a = |o: u64| uval(little, &buf[o as usize..o as usize + 4]);
    let mut need = VerNeedIterator::new(e, Class::ELF64, count as u64, start as usize, buf);
    let mut def = VerDefIterator::new(e, Class::ELF64, count as u64, start as usize, buf);
    #[cfg(kani)] const RECORDS: usize = 1;    // the search looks at the first record (and its first auxiliary record) and the step after it
    #[cfg(not(kani))] const RECORDS: usize = 3;
    for k in 0..RECORDS {
        let fits = !buf.is_empty() && cnt > 0 && off + rs <= len && u16a(off) == 1;
        if defs {
            let got = def.next();
            if got.is_some() != fits { fail!("VerDef #{}: yielded={} but a version-1 record {} at offset {} with count {}", k, got.is_some(), if fits { "fits" } else { "does not fit" }, off, cnt); }
            if !fits { return Ok(()); }
            let (vd, mut aux) = got.unwrap();
            // Elf64_Verdef: vd_version u16, vd_flags u16, vd_ndx u16, vd_cnt u16, vd_hash u32, vd_aux u32, vd_next u32
            let (flags, ndx, c, hash, auxo, next) = (u16a(off + 2), u16a(off + 4), u16a(off + 6), u32a(off + 8), u32a(off + 12), u32a(off + 16));
            if vd.vd_flags as u64 != flags || vd.vd_ndx as u64 != ndx || vd.vd_cnt as u64 != c || vd.vd_hash as u64 != hash { fail!("VerDef #{} at offset {}: fields differ from the bytes", k, off); }
            let a0 = off + auxo;
            let afits = c > 0 && a0 + 8 <= len;
            let ga = aux.next();
            if ga.is_some() != afits { fail!("VerDef #{}: first auxiliary record expected at offset {} (vd_aux {}), yielded={}", k, a0, auxo, ga.is_some()); }
            if let Some(a) = ga { if a.vda_name as u64 != u32a(a0) { fail!("VerDef #{}: auxiliary vda_name {} != bytes at {}", k, a.vda_name, a0); } }
            cnt -= 1; off += next; if cnt > 0 && next == 0 { cnt = 0; }
            if k + 1 == RECORDS { let fits2 = cnt > 0 && off + rs <= len && u16a(off) == 1; if def.next().is_some() != fits2 { fail!("VerDef: after a record with vd_next {} the iterator {} at offset {} (count left {})", next, if fits2 { "stops although a record fits" } else { "yields although no record fits" }, off, cnt); } }
        } else {
            let got = need.next();
            if got.is_some() != fits { fail!("VerNeed #{}: yielded={} but a version-1 record {} at offset {} with count {}", k, got.is_some(), if fits { "fits" } else { "does not fit" }, off, cnt); }
            if !fits { return Ok(()); }
            let (vn, mut aux) = got.unwrap();
            // Elf64_Verneed: vn_version u16, vn_cnt u16, vn_file u32, vn_aux u32, vn_next u32
            let (c, file, auxo, next) = (u16a(off + 2), u32a(off + 4), u32a(off + 8), u32a(off + 12));
            if vn.vn_cnt as u64 != c || vn.vn_file as u64 != file { fail!("VerNeed #{} at offset {}: fields differ from the bytes", k, off); }
            let a0 = off + auxo;
            let afits = c > 0 && a0 + 16 <= len;
            let ga = aux.next();
            if ga.is_some() != afits { fail!("VerNeed #{}: first auxiliary record expected at offset {} (vn_aux {}), yielded={}", k, a0, auxo, ga.is_some()); }
            // Elf64_Vernaux: vna_hash u32, vna_flags u16, vna_other u16, vna_name u32, vna_next u32
            if let Some(a) = ga { if a.vna_hash as u64 != u32a(a0) || a.vna_flags as u64 != u16a(a0 + 4) || a.vna_other as u64 != u16a(a0 + 6) || a.vna_name as u64 != u32a(a0 + 8) { fail!("VerNeed #{}: auxiliary record fields differ from the bytes at {}", k, a0); } }
            cnt -= 1; off += next; if cnt > 0 && next == 0 { cnt = 0; }
            if k + 1 == RECORDS { let fits2 = cnt > 0 && off + rs <= len && u16a(off) == 1; if need.next().is_some() != fits2 { fail!("VerNeed: after a record with vn_next {} the iterator {} at offset {} (count left {})", next, if fits2 { "stops although a record fits" } else { "yields although no record fits" }, off, cnt); } }
        }
    }
    Ok(())
}

/// C13: get_requirement on a table with ONE VerNeed record at offset 0 whose single auxiliary record sits at offset 16
/// (inputs with another layout are not judged): Some iff vna_other == versym[i] & 0x7fff, then file / name / hash / flags
/// come from that record and `hidden` is bit 15 of versym[i]; symbol indexes beyond the versym table never give a record
pub fn check_c13_req(versym: &[u8; 4], need: &[u8; 32], strs: &[u8; 6], sym_idx: u8, little: bool) -> Result<(), String> {
    use elf::gnu_symver::{SymbolVersionTable, VerNeedIterator, VersionIndexTable};
    let e = if little { AnyEndian::Little } else { AnyEndian::Big };
    let u16a = |b: &[u8], o: usize| uval(little, &b[o..o + 2]);
    let u32a = |b: &[u8], o: usize| uval(little, &b[o..o + 4]);
    // Elf64_Verneed: vn_version u16, vn_cnt u16, vn_file u32, vn_aux u32, vn_next u32
    if !(u16a(need, 0) == 1 && u16a(need, 2) == 1 && u32a(need, 8) == 16 && u32a(need, 12) == 0) { return Ok(()); }
    let ids = VersionIndexTable::new(e, Class::ELF64, versym);
    let t = SymbolVersionTable::new(ids, Some((VerNeedIterator::new(e, Class::ELF64, 1, 0, need), elf::string_table::StringTable::new(strs))), None);
    let r = t.get_requirement(sym_idx as usize);
    if sym_idx >= 2 { if matches!(r, Ok(Some(_))) { fail!("get_requirement({}) gives a record although the versym table has 2 entries", sym_idx); } return Ok(()); }
    let v = u16a(versym, 2 * sym_idx as usize); let idx = v & 0x7fff; let hidden = v & 0x8000 != 0;
    // Elf64_Vernaux at 16: vna_hash u32, vna_flags u16, vna_other u16, vna_name u32, vna_next u32
    let (hash, flags, other, name_off) = (u32a(need, 16), u16a(need, 20), u16a(need, 22), u32a(need, 24));
    let strz = |off: u64| -> Option<&[u8]> { let o = off as usize; if o >= strs.len() { return None; } strs[o..].iter().position(|&b| b == 0).map(|k| &strs[o..o + k]) };
    if other != idx {
        if !matches!(r, Ok(None)) { fail!("get_requirement({}): versym {:#x} matches no auxiliary record (vna_other {}), expected None", sym_idx, v, other); }
        return Ok(());
    }
    let file = strz(u32a(need, 4)).and_then(|b| core::str::from_utf8(b).ok());
    let name = strz(name_off).and_then(|b| core::str::from_utf8(b).ok());
    match (r, file, name) {
        (Ok(Some(q)), Some(f), Some(n)) => {
            if q.file != f || q.name != n || q.hash as u64 != hash || q.flags as u64 != flags { fail!("get_requirement({}): file/name/hash/flags differ from the matching auxiliary record", sym_idx); }
            if q.hidden != hidden { fail!("get_requirement({}): hidden == {} but bit 15 of versym {:#x} is {}", sym_idx, q.hidden, v, hidden); }
        }
        (Ok(Some(_)), _, _) => fail!("get_requirement({}) is Some although a string of the record is unreadable", sym_idx),
        (Ok(None), Some(_), Some(_)) => fail!("get_requirement({}): versym {:#x} & 0x7fff == vna_other {} but no requirement was returned", sym_idx, v, other),
        (Err(_), Some(_), Some(_)) => fail!("get_requirement({}) is Err although the matching record and its strings are readable", sym_idx),
        _ => {}
    }
    Ok(())
}

/// C20: over a 248-byte ELF64/LE file with two section headers (types, links, entry sizes and data windows chosen by the
/// arguments) and at most one section of each kind, the one-pass discovery and the targeted accessors agree
pub fn check_c20(ty0: u8, ty1: u8, link0: u8, link1: u8, ent0: u8, ent1: u8, win0: bool, win1: bool) -> Result<(), String> {
    const TYPES: [u32; 8] = [0, 2, 3, 11, 6, 1, 7, 9];      // NULL SYMTAB STRTAB DYNSYM DYNAMIC PROGBITS NOTE REL
    let (t0, t1) = (TYPES[(ty0 % 8) as usize], TYPES[(ty1 % 8) as usize]);
    if t0 == t1 && t0 != 0 && t0 != 1 { return Ok(()); }     // "at most one section of each kind"
    let mut f = [0u8; 248];
    f[..8].copy_from_slice(&[0x7f, b'E', b'L', b'F', 2, 1, 1, 0]);
    f[16] = 2; f[18] = 62; f[20] = 1; f[40] = 64; f[52] = 64; f[54] = 56; f[58] = 64; f[60] = 2;   // e_shoff 64, e_shentsize 64, e_shnum 2
    f[192..240].copy_from_slice(&[0x11u8; 48]);
    f[240..248].copy_from_slice(&[0, b'a', 0, b'b', b'c', 0, b'd', 0]);   // the 8-byte window 240..248 is a small string table
    let put = |f: &mut [u8; 248], n: usize, ty: u32, link: u8, ent: u8, win: bool| {
        let b = 64 + 64 * n;
        f[b + 4..b + 8].copy_from_slice(&ty.to_le_bytes());
        let (off, size): (u64, u64) = if win { (192, 48) } else { (240, 8) };
        f[b + 24..b + 32].copy_from_slice(&off.to_le_bytes()); f[b + 32..b + 40].copy_from_slice(&size.to_le_bytes());
        f[b + 40..b + 44].copy_from_slice(&((link % 3) as u32).to_le_bytes());
        f[b + 56..b + 64].copy_from_slice(&([24u64, 16, 0, 8][(ent % 4) as usize]).to_le_bytes());
    };
    put(&mut f, 0, t0, link0, ent0, win0); put(&mut f, 1, t1, link1, ent1, win1);
    let eb = match elf::ElfBytes::<AnyEndian>::minimal_parse(&f) { Ok(e) => e, Err(_) => fail!("minimal_parse rejected the test file") };
    let common = match eb.find_common_data() { Ok(c) => c, Err(_) => return Ok(()) };
    let same_tab = |a: &Option<elf::symbol::SymbolTable<AnyEndian>>, b: &Option<(elf::symbol::SymbolTable<AnyEndian>, elf::string_table::StringTable)>,
                    s: &Option<elf::string_table::StringTable>| -> bool {
        match (a, b) {
            (None, None) => s.is_none(),
            (Some(x), Some((y, ys))) => x.len() == y.len() && x.get(0).ok() == y.get(0).ok() && match s { Some(xs) => xs.get_raw(1).ok() == ys.get_raw(1).ok() && xs.get_raw(0).ok() == ys.get_raw(0).ok(), None => false },
            _ => false,
        }
    };
    match eb.symbol_table() {
        Ok(t) => if !same_tab(&common.symtab, &t, &common.symtab_strs) { fail!("find_common_data and symbol_table() disagree (types {} {}, links {} {})", t0, t1, link0 % 3, link1 % 3); },
        Err(_) => fail!("find_common_data succeeds but symbol_table() is an error (types {} {})", t0, t1),
    }
    match eb.dynamic_symbol_table() {
        Ok(t) => if !same_tab(&common.dynsyms, &t, &common.dynsyms_strs) { fail!("find_common_data and dynamic_symbol_table() disagree (types {} {}, links {} {})", t0, t1, link0 % 3, link1 % 3); },
        Err(_) => fail!("find_common_data succeeds but dynamic_symbol_table() is an error (types {} {})", t0, t1),
    }
    match eb.dynamic() {
        Ok(d) => match (&common.dynamic, &d) { (None, None) => {}, (Some(x), Some(y)) => if x.len() != y.len() || x.get(0).ok() != y.get(0).ok() { fail!("find_common_data and dynamic() disagree"); }, _ => fail!("find_common_data and dynamic() disagree on presence") },
        Err(_) => fail!("find_common_data succeeds but dynamic() is an error"),
    }
    Ok(())
}

include!("layout_oracle.rs");
