//! Kani harnesses (thorough tier).  They (1) discharge the contracts Verus has to ASSUME about core
//! (A2 from_{le,be}_bytes, A4 checked_shr, A3 try_from, A5 position, A16 slice != array) and (2) check the
//! #[repr(C)] layouts of C19 -- all against the real crate / the real core.  Loop-free or
//! constant-bounded harnesses over the full scalar domain are complete proofs; the others state their bound.
#![allow(dead_code)]

/// sum of b[i] * 256^i
fn le_val(b: &[u8]) -> u128 {
    let mut v: u128 = 0;
    let mut i = b.len();
    while i > 0 {
        i -= 1;
        v = v * 256 + b[i] as u128;
    }
    v
}
fn be_val(b: &[u8]) -> u128 {
    let mut v: u128 = 0;
    let mut i = 0;
    while i < b.len() {
        v = v * 256 + b[i] as u128;
        i += 1;
    }
    v
}
/// two's complement of an n-byte value
fn sval(u: u128, n: u32) -> i128 {
    let m: u128 = 1u128 << (8 * n);
    if 2 * u >= m { u as i128 - m as i128 } else { u as i128 }
}

#[cfg(kani)]
mod a2_shims {
    use super::*;
    macro_rules! unsigned { ($name:ident, $t:ty, $n:expr) => {
        #[kani::proof]
        #[kani::unwind(10)]
        fn $name() {
            let b: [u8; $n] = kani::any();
            assert!(<$t>::from_le_bytes(b) as u128 == le_val(&b));
            assert!(<$t>::from_be_bytes(b) as u128 == be_val(&b));
        }
    }}
    macro_rules! signed { ($name:ident, $t:ty, $n:expr) => {
        #[kani::proof]
        #[kani::unwind(10)]
        fn $name() {
            let b: [u8; $n] = kani::any();
            assert!(<$t>::from_le_bytes(b) as i128 == sval(le_val(&b), $n));
            assert!(<$t>::from_be_bytes(b) as i128 == sval(be_val(&b), $n));
        }
    }}
    unsigned!(a2_u8, u8, 1);
    unsigned!(a2_u16, u16, 2);
    unsigned!(a2_u32, u32, 4);
    unsigned!(a2_u64, u64, 8);
    signed!(a2_i32, i32, 4);
    signed!(a2_i64, i64, 8);
}

#[cfg(kani)]
mod core_assumptions {
    /// A4
    #[kani::proof]
    fn a4_checked_shr() {
        let x: u32 = kani::any();
        let n: u32 = kani::any();
        match x.checked_shr(n) {
            Some(v) => assert!(n < 32 && v == x >> n),
            None => assert!(n >= 32),
        }
    }
    /// A3 for the four array sizes the crate uses; slice length <= 9 (bounded in the slice length)
    #[kani::proof]
    #[kani::unwind(11)]
    fn a3_try_from_slice() {
        let buf: [u8; 9] = kani::any();
        let len: usize = kani::any();
        kani::assume(len <= 9);
        let s = &buf[..len];
        let r1: Result<[u8; 1], _> = s.try_into();
        let r2: Result<[u8; 2], _> = s.try_into();
        let r4: Result<[u8; 4], _> = s.try_into();
        let r8: Result<[u8; 8], _> = s.try_into();
        assert!(r1.is_ok() == (len == 1) && r2.is_ok() == (len == 2) && r4.is_ok() == (len == 4) && r8.is_ok() == (len == 8));
        if let Ok(a) = r4 { assert!(a[..] == s[..]); }
        if let Ok(a) = r8 { assert!(a[..] == s[..]); }
    }
    /// A5: slice::Iter::position returns the least matching index; slice length <= 8 (bounded)
    #[kani::proof]
    #[kani::unwind(10)]
    fn a5_position_first_match() {
        let buf: [u8; 8] = kani::any();
        let len: usize = kani::any();
        kani::assume(len <= 8);
        let s = &buf[..len];
        match s.iter().position(|&b| b == 0u8) {
            Some(k) => { assert!(k < len && s[k] == 0); let mut j = 0; while j < k { assert!(s[j] != 0); j += 1; } }
            None => { let mut j = 0; while j < len { assert!(s[j] != 0); j += 1; } }
        }
    }
    /// A16: `!=` between &[u8] and [u8; 4] is the negation of `==`; slice length <= 8 (bounded)
    #[kani::proof]
    #[kani::unwind(10)]
    fn a16_ne_is_not_eq() {
        let buf: [u8; 8] = kani::any();
        let len: usize = kani::any();
        kani::assume(len <= 8);
        let s = &buf[..len];
        let m: [u8; 4] = kani::any();
        assert!((s != m) == !(s == m));
        assert!((s == m) == (len == 4 && s[0] == m[0] && s[1] == m[1] && s[2] == m[2] && s[3] == m[3]));
    }
}

/// C14 (BOUNDED stand-in, name length <= 5): NoteAny::name_str is Ok exactly for UTF-8 names and then its bytes are the name
/// bytes without the trailing NULs.  The UTF-8 oracle is a hand-written validator of the Unicode table 3-7 (well-formed
/// byte sequences), independent of core::str.
#[cfg(kani)]
mod c14_name_str {
    fn utf8_ok(b: &[u8]) -> bool {
        let n = b.len();
        let mut i = 0;
        while i < n {
            let c = b[i];
            if c < 0x80 { i += 1; continue; }
            let cont = |k: usize| k < n && (b[k] & 0xC0) == 0x80;
            if (0xC2..=0xDF).contains(&c) { if !cont(i + 1) { return false; } i += 2; continue; }
            if (0xE0..=0xEF).contains(&c) {
                if !(cont(i + 1) && cont(i + 2)) { return false; }
                if c == 0xE0 && b[i + 1] < 0xA0 { return false; }
                if c == 0xED && b[i + 1] > 0x9F { return false; }
                i += 3; continue;
            }
            if (0xF0..=0xF4).contains(&c) {
                if !(cont(i + 1) && cont(i + 2) && cont(i + 3)) { return false; }
                if c == 0xF0 && b[i + 1] < 0x90 { return false; }
                if c == 0xF4 && b[i + 1] > 0x8F { return false; }
                i += 4; continue;
            }
            return false;
        }
        true
    }
    #[kani::proof]
    #[kani::unwind(8)]
    fn c14_name_str_bounded() {
        let buf: [u8; 5] = kani::any();
        let len: usize = kani::any();
        kani::assume(len <= 5);
        let name = &buf[..len];
        let note = elf::note::NoteAny { n_type: kani::any(), name, desc: &[] };
        let mut end = len;
        while end > 0 && name[end - 1] == 0 { end -= 1; }
        match note.name_str() {
            Ok(s) => { assert!(utf8_ok(name)); assert!(s.as_bytes() == &name[..end]); }
            Err(_) => assert!(!utf8_ok(name)),
        }
    }
}

/// C19 (b): every exported #[repr(C)] structure has the ABI's size and field offsets
/// (numbers generated from spec/abi_reference.json = glibc <elf.h>; see layout_gen.rs)
#[cfg(kani)]
mod c19_layout {
    include!("layout_gen.rs");
}
